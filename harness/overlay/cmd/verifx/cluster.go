//go:build verif

package main

import (
	"context"
	"fmt"
	"io"
	"log"
	"net"
	"sort"
	"strconv"
	"strings"
	"sync"
	"time"

	"github.com/hashicorp/memberlist"
	"github.com/olric-data/olric"
	"github.com/olric-data/olric/config"
	"github.com/olric-data/olric/internal/cluster/partitions"
	"github.com/redis/go-redis/v9"
)

// In-process clusters of real olric members on loopback, shared by the cluster-level subcommands.

type ClusterOpts struct {
	Members      int                 `json:"members"`
	Replicas     int                 `json:"replicas"`
	WQ           int                 `json:"wq"`
	RQ           int                 `json:"rq"`
	MCQ          int                 `json:"mcq"`
	Partitions   uint64              `json:"partitions"`
	TableSize    uint64              `json:"table"`
	ReadRepair   bool                `json:"readrepair"`
	Async        bool                `json:"async"`
	DMaps        map[string]DMapOpts `json:"dmaps"`
	Default      *DMapOpts           `json:"default"`
	EvictWorkers int64               `json:"evict_workers"` // 0 = library default
	JanitorMs    int                 `json:"janitor_ms"`    // CheckEmptyFragmentsInterval, 0 = 1h
	CompactMs    int                 `json:"compact_ms"`    // TriggerCompactionInterval, 0 = 1h
	PushMs       int                 `json:"push_ms"`       // RoutingTablePushInterval, 0 = default
	FastGossip   bool                `json:"fast_gossip"`
	BalancerMs   int                 `json:"balancer_ms"` // TriggerBalancerInterval, 0 = default
	TableIdleMs  int                 `json:"table_idle_ms"` // maxIdleTableTimeout of the storage engine, 0 = library default (15 min)
}

type DMapOpts struct {
	MaxKeys    int    `json:"maxkeys"`
	MaxInuse   int    `json:"maxinuse"`
	LRUSamples int    `json:"lrusamples"`
	TTLMs      int    `json:"ttl_ms"`
	MaxIdleMs  int    `json:"maxidle_ms"`
	LRU        bool   `json:"lru"`
	TableSize  uint64 `json:"table"`
}

type Member struct {
	Abrupt bool
	DB     *olric.Olric
	Emb    *olric.EmbeddedClient
	Addr   string
	Cfg    *config.Config
	Alive  bool
	cancel context.CancelFunc
}

type Cluster struct {
	mu      sync.Mutex
	Opts    ClusterOpts
	Members []*Member
	cc      *olric.ClusterClient
	raw     map[int]*redis.Client
}

func freePort() int {
	l, err := net.Listen("tcp", "127.0.0.1:0")
	if err != nil {
		panic(err)
	}
	defer l.Close()
	return l.Addr().(*net.TCPAddr).Port
}

func (o *DMapOpts) toConfig(c *ClusterOpts) config.DMap {
	d := config.DMap{
		MaxKeys: o.MaxKeys, MaxInuse: o.MaxInuse, LRUSamples: o.LRUSamples,
		TTLDuration:     time.Duration(o.TTLMs) * time.Millisecond,
		MaxIdleDuration: time.Duration(o.MaxIdleMs) * time.Millisecond,
	}
	if o.LRU {
		d.EvictionPolicy = config.LRUEviction
	}
	ts := o.TableSize
	if ts == 0 {
		ts = c.TableSize
	}
	if ts != 0 {
		e := config.NewEngine()
		e.Config = map[string]interface{}{"tableSize": ts}
		if c.TableIdleMs > 0 {
			e.Config["maxIdleTableTimeout"] = time.Duration(c.TableIdleMs) * time.Millisecond
		}
		d.Engine = e
	}
	return d
}

func (cl *Cluster) newConfig() *config.Config {
	o := cl.Opts
	c := config.New("local")
	c.PartitionCount = o.Partitions
	if c.PartitionCount == 0 {
		c.PartitionCount = 7
	}
	mc := memberlist.DefaultLocalConfig()
	mc.BindAddr = "127.0.0.1"
	mc.BindPort = 0
	if o.FastGossip {
		// fast enough to notice a stopped member within a couple of seconds, slow enough not to suspect a live
		// one on a loaded machine
		mc.ProbeInterval = 150 * time.Millisecond
		mc.ProbeTimeout = 120 * time.Millisecond
		mc.SuspicionMult = 2
		mc.GossipInterval = 30 * time.Millisecond
		mc.PushPullInterval = 2 * time.Second
	}
	c.MemberlistConfig = mc
	c.BindAddr = "127.0.0.1"
	c.BindPort = freePort()
	c.MemberlistConfig.Name = net.JoinHostPort(c.BindAddr, strconv.Itoa(c.BindPort))
	c.LeaveTimeout = 500 * time.Millisecond
	c.ReplicaCount = max1(o.Replicas)
	c.WriteQuorum = max1(o.WQ)
	c.ReadQuorum = max1(o.RQ)
	c.MemberCountQuorum = int32(max1(o.MCQ))
	c.ReadRepair = o.ReadRepair
	if o.Async {
		c.ReplicationMode = config.AsyncReplicationMode
	}
	c.LogOutput = io.Discard
	c.Logger = log.New(io.Discard, "", 0)
	c.LogVerbosity = 1
	if o.PushMs > 0 {
		c.RoutingTablePushInterval = time.Duration(o.PushMs) * time.Millisecond
	}
	if o.BalancerMs > 0 {
		c.TriggerBalancerInterval = time.Duration(o.BalancerMs) * time.Millisecond
	}
	dm := &config.DMaps{}
	if o.TableSize != 0 {
		e := config.NewEngine()
		e.Config = map[string]interface{}{"tableSize": o.TableSize}
		if o.TableIdleMs > 0 {
			e.Config["maxIdleTableTimeout"] = time.Duration(o.TableIdleMs) * time.Millisecond
		}
		dm.Engine = e
	}
	if o.Default != nil {
		d := o.Default
		dm.MaxKeys, dm.MaxInuse, dm.LRUSamples = d.MaxKeys, d.MaxInuse, d.LRUSamples
		dm.TTLDuration = time.Duration(d.TTLMs) * time.Millisecond
		dm.MaxIdleDuration = time.Duration(d.MaxIdleMs) * time.Millisecond
		if d.LRU {
			dm.EvictionPolicy = config.LRUEviction
		}
	}
	if o.EvictWorkers != 0 {
		dm.NumEvictionWorkers = o.EvictWorkers
	}
	dm.CheckEmptyFragmentsInterval = time.Hour
	if o.JanitorMs > 0 {
		dm.CheckEmptyFragmentsInterval = time.Duration(o.JanitorMs) * time.Millisecond
	}
	dm.TriggerCompactionInterval = time.Hour
	if o.CompactMs > 0 {
		dm.TriggerCompactionInterval = time.Duration(o.CompactMs) * time.Millisecond
	}
	if len(o.DMaps) > 0 {
		dm.Custom = map[string]config.DMap{}
		for name, d := range o.DMaps {
			dd := d
			dm.Custom[name] = dd.toConfig(&o)
		}
	}
	c.DMaps = dm
	return c
}

func max1(x int) int {
	if x < 1 {
		return 1
	}
	return x
}

// AddMember starts one more member that joins the existing ones.
// AddMember starts one more member. A port found free can be taken by another process before the member binds it
// (many harness processes run side by side): that start is repeated with fresh ports.
func (cl *Cluster) AddMember() (*Member, error) {
	var m *Member
	var err error
	for attempt := 0; attempt < 4; attempt++ {
		m, err = cl.addMemberOnce()
		if err == nil || !strings.Contains(err.Error(), "address already in use") {
			return m, err
		}
	}
	return m, err
}

func (cl *Cluster) addMemberOnce() (*Member, error) {
	c := cl.newConfig()
	for _, m := range cl.Members {
		if m.Alive {
			c.Peers = append(c.Peers, m.DB.VerifRT().Discovery().LocalNode().Address())
		}
	}
	if err := c.Sanitize(); err != nil {
		return nil, err
	}
	if err := c.Validate(); err != nil {
		return nil, err
	}
	ctx, cancel := context.WithCancel(context.Background())
	c.Started = func() { cancel() }
	db, err := olric.New(c)
	if err != nil {
		return nil, err
	}
	errc := make(chan error, 1)
	go func() {
		if err := db.Start(); err != nil {
			errc <- err
		}
	}()
	select {
	case <-ctx.Done():
	case err := <-errc:
		return nil, fmt.Errorf("member failed to start: %w", err)
	case <-time.After(10 * time.Second):
		return nil, fmt.Errorf("member did not start within 10s")
	}
	m := &Member{DB: db, Emb: db.NewEmbeddedClient(), Addr: c.MemberlistConfig.Name, Cfg: c, Alive: true}
	cl.mu.Lock()
	cl.Members = append(cl.Members, m)
	cl.mu.Unlock()
	return m, nil
}

func StartCluster(o ClusterOpts) (*Cluster, error) {
	cl := &Cluster{Opts: o, raw: map[int]*redis.Client{}}
	n := o.Members
	if n < 1 {
		n = 1
	}
	for i := 0; i < n; i++ {
		if _, err := cl.AddMember(); err != nil {
			cl.Shutdown()
			return nil, err
		}
	}
	if err := cl.WaitStable(15 * time.Second); err != nil {
		cl.Shutdown()
		return nil, err
	}
	return cl, nil
}

func (cl *Cluster) Live() []*Member {
	var out []*Member
	for _, m := range cl.Members {
		if m.Alive {
			out = append(out, m)
		}
	}
	return out
}

// RoutingSignature of one member: per partition, owners and backups as member names.
func (m *Member) RoutingSignature() string {
	s := ""
	pc := m.Cfg.PartitionCount
	for p := uint64(0); p < pc; p++ {
		s += fmt.Sprint(p, ":")
		for _, o := range m.DB.VerifPrimary().PartitionByID(p).Owners() {
			s += o.Name + fmt.Sprint("#", o.ID) + ","
		}
		s += "|"
		for _, o := range m.DB.VerifBackup().PartitionByID(p).Owners() {
			s += o.Name + fmt.Sprint("#", o.ID) + ","
		}
		s += ";"
	}
	return s
}

// Stable: every live member sees exactly the live members, all hold the same table, every partition has
// one owner (no previous owner left) and min(R,N)-1 backups.
func (cl *Cluster) stableNow() (bool, string) {
	live := cl.Live()
	if len(live) == 0 {
		return true, ""
	}
	want := len(live)
	sig := ""
	for i, m := range live {
		if n := m.DB.VerifRT().Discovery().NumMembers(); n != want {
			return false, fmt.Sprintf("member %s sees %d members, want %d", m.Addr, n, want)
		}
		s := m.RoutingSignature()
		if i == 0 {
			sig = s
		} else if s != sig {
			return false, "routing tables differ"
		}
	}
	r := cl.Opts.Replicas
	if r < 1 {
		r = 1
	}
	nb := r - 1
	if want-1 < nb {
		nb = want - 1
	}
	m := live[0]
	liveNames := map[string]bool{}
	for _, x := range live {
		liveNames[x.Addr] = true
	}
	for p := uint64(0); p < m.Cfg.PartitionCount; p++ {
		for _, o := range m.DB.VerifPrimary().PartitionByID(p).Owners() {
			if !liveNames[o.Name] {
				return false, fmt.Sprintf("partition %d still lists the stopped member %s as owner", p, o.Name)
			}
		}
		for _, o := range m.DB.VerifBackup().PartitionByID(p).Owners() {
			if !liveNames[o.Name] {
				return false, fmt.Sprintf("partition %d still lists the stopped member %s as backup", p, o.Name)
			}
		}
		if c := m.DB.VerifPrimary().PartitionByID(p).OwnerCount(); c != 1 {
			return false, fmt.Sprintf("partition %d has %d owners", p, c)
		}
		// after a fail-over a member that still holds backup data (possibly the new primary owner itself) stays
		// listed in addition to the min(R,N)-1 current backup owners
		if c := m.DB.VerifBackup().PartitionByID(p).OwnerCount(); c < nb {
			return false, fmt.Sprintf("partition %d has %d backups, want at least %d", p, c, nb)
		}
	}
	return true, ""
}

func (cl *Cluster) Coordinator() *Member {
	for _, m := range cl.Live() {
		if m.DB.VerifRT().Discovery().IsCoordinator() {
			return m
		}
	}
	return nil
}

// Sync drives one routing push from the coordinator and one balancer run on every member.
func (cl *Cluster) Sync() {
	if c := cl.Coordinator(); c != nil {
		c.DB.VerifRT().UpdateEagerly()
	}
	for _, m := range cl.Live() {
		m.DB.VerifBalancer().BalanceEagerly()
	}
}

func (cl *Cluster) WaitStable(d time.Duration) error {
	deadline := time.Now().Add(d)
	why := ""
	for time.Now().Before(deadline) {
		ok, w := cl.stableNow()
		if ok {
			return nil
		}
		why = w
		cl.Sync()
		time.Sleep(30 * time.Millisecond)
	}
	return fmt.Errorf("cluster did not stabilise: %s", why)
}

func (cl *Cluster) Shutdown() {
	for _, c := range cl.raw {
		c.Close()
	}
	if cl.cc != nil {
		cl.cc.Close(context.Background())
	}
	var wg sync.WaitGroup
	for _, m := range cl.Members {
		if !m.Alive {
			continue
		}
		wg.Add(1)
		go func(m *Member) {
			defer wg.Done()
			ctx, cancel := context.WithTimeout(context.Background(), 5*time.Second)
			defer cancel()
			_ = m.DB.Shutdown(ctx)
		}(m)
	}
	wg.Wait()
}

// StopMember shuts a member down gracefully (leave broadcast).
func (cl *Cluster) StopMember(i int) error {
	m := cl.Members[i]
	if !m.Alive {
		return nil
	}
	m.Alive = false
	if c, ok := cl.raw[i]; ok {
		c.Close()
		delete(cl.raw, i)
	}
	if cl.cc != nil {
		cl.cc.Close(context.Background())
		cl.cc = nil
	}
	ctx, cancel := context.WithTimeout(context.Background(), 5*time.Second)
	defer cancel()
	return m.DB.Shutdown(ctx)
}

func (cl *Cluster) ClusterClient() (*olric.ClusterClient, error) {
	if cl.cc != nil {
		return cl.cc, nil
	}
	var addrs []string
	for _, m := range cl.Live() {
		addrs = append(addrs, m.Addr)
	}
	cc, err := olric.NewClusterClient(addrs)
	if err != nil {
		return nil, err
	}
	cl.cc = cc
	return cc, nil
}

// Raw returns a plain RESP connection (go-redis, no cluster awareness) to member i.
func (cl *Cluster) Raw(i int) *redis.Client {
	if c, ok := cl.raw[i]; ok {
		return c
	}
	c := redis.NewClient(&redis.Options{Addr: cl.Members[i].Addr, MaxRetries: -1, DialTimeout: 2 * time.Second,
		ReadTimeout: 5 * time.Second, WriteTimeout: 5 * time.Second, PoolSize: 4})
	cl.raw[i] = c
	return c
}

// KeyInfo: hkey, partition, index of the primary owner and of the backup owners among cl.Members.
type KeyInfo struct {
	HKey    uint64
	Part    uint64
	Owner   int
	Backups []int
}

func (cl *Cluster) indexOf(name string) int {
	for i, m := range cl.Members {
		if m.Addr == name {
			return i
		}
	}
	return -1
}

func (cl *Cluster) KeyInfo(dmapName, key string) KeyInfo {
	h := partitions.HKey(dmapName, key)
	m := cl.Live()[0]
	part := m.DB.VerifPrimary().PartitionByHKey(h)
	ki := KeyInfo{HKey: h, Part: part.ID(), Owner: cl.indexOf(part.Owner().Name)}
	for _, b := range m.DB.VerifBackup().PartitionByID(part.ID()).Owners() {
		ki.Backups = append(ki.Backups, cl.indexOf(b.Name))
	}
	sort.Ints(ki.Backups)
	return ki
}

// Copies returns, for every live member, its primary-kind and backup-kind copy of the key.
type CopyDump struct {
	Member int    `json:"m"`
	Kind   string `json:"kind"`
	Key    string `json:"key"`
	Value  string `json:"val"`
	TTL    int64  `json:"ttl"`
	TS     int64  `json:"ts"`
}
