//go:build verif

package main

import (
	"context"
	"errors"
	"fmt"
	"net"
	"strconv"
	"strings"
	"time"

	"github.com/olric-data/olric"
	"github.com/olric-data/olric/config"
	"github.com/olric-data/olric/internal/cluster/partitions"
	"github.com/olric-data/olric/internal/discovery"
	"github.com/redis/go-redis/v9"
)

// Helpers shared by the `quorum` (C05) and `lww` (C06) subcommands.

// envError marks a failure of the environment (cluster did not form, member did not come back ...): the
// python side turns it into a check error, never into a verdict.
type envError struct{ msg string }

func (e envError) Error() string { return "environment: " + e.msg }

func envErrorf(f string, a ...interface{}) error { return envError{fmt.Sprintf(f, a...)} }

// startClusterCfg is StartCluster with a hook on every member's config (cluster.go is shared and has no
// knob for the balancer interval).
func startClusterCfg(o ClusterOpts, tweak func(c *config.Config)) (*Cluster, error) {
	cl := &Cluster{Opts: o, raw: map[int]*redis.Client{}}
	n := o.Members
	if n < 1 {
		n = 1
	}
	for i := 0; i < n; i++ {
		if err := addMemberCfg(cl, tweak); err != nil {
			cl.Shutdown()
			return nil, err
		}
	}
	if err := cl.WaitStable(20 * time.Second); err != nil {
		cl.Shutdown()
		return nil, err
	}
	return cl, nil
}

func addMemberCfg(cl *Cluster, tweak func(c *config.Config)) error {
	c := cl.newConfig()
	for _, m := range cl.Members {
		if m.Alive {
			c.Peers = append(c.Peers, m.DB.VerifRT().Discovery().LocalNode().Address())
		}
	}
	if tweak != nil {
		tweak(c)
	}
	if err := c.Sanitize(); err != nil {
		return err
	}
	if err := c.Validate(); err != nil {
		return err
	}
	ctx, cancel := context.WithCancel(context.Background())
	c.Started = func() { cancel() }
	db, err := olric.New(c)
	if err != nil {
		return err
	}
	errc := make(chan error, 1)
	go func() {
		if err := db.Start(); err != nil {
			errc <- err
		}
	}()
	select {
	case <-ctx.Done():
	case err := <-errc:
		return fmt.Errorf("member failed to start: %w", err)
	case <-time.After(10 * time.Second):
		return fmt.Errorf("member did not start within 10s")
	}
	m := &Member{DB: db, Emb: db.NewEmbeddedClient(), Addr: c.MemberlistConfig.Name, Cfg: c, Alive: true}
	cl.mu.Lock()
	cl.Members = append(cl.Members, m)
	cl.mu.Unlock()
	return nil
}

// quietCluster: no periodic balancer run, no periodic routing push, no janitor: nothing moves a copy except the
// operation under test.
func quietTweak(c *config.Config) {
	c.TriggerBalancerInterval = time.Hour
	c.RoutingTablePushInterval = time.Hour
}

// roles of a key as the partition owner sees them: the owner, the previous owners (oldest first, as stored) and
// the backup owners in the order the code walks them.
type keyRoles struct {
	HKey    uint64
	Part    uint64
	Owner   int
	Prev    []int
	Backups []int
}

func (cl *Cluster) roles(dmapName, key string) (keyRoles, error) {
	h := partitions.HKey(dmapName, key)
	var live *Member
	for _, m := range cl.Members {
		if m.Alive {
			live = m
			break
		}
	}
	part := live.DB.VerifPrimary().PartitionByHKey(h)
	kr := keyRoles{HKey: h, Part: part.ID(), Owner: cl.indexOf(part.Owner().Name)}
	if kr.Owner < 0 {
		return kr, envErrorf("owner %s of partition %d is not a member of the harness", part.Owner().Name, part.ID())
	}
	om := cl.Members[kr.Owner]
	owners := om.DB.VerifPrimary().PartitionByID(kr.Part).Owners()
	for i := 0; i+1 < len(owners); i++ {
		kr.Prev = append(kr.Prev, cl.indexOf(owners[i].Name))
	}
	for _, b := range om.DB.VerifBackup().PartitionByID(kr.Part).Owners() {
		kr.Backups = append(kr.Backups, cl.indexOf(b.Name))
	}
	return kr, nil
}

func memberOf(cl *Cluster, i int) discovery.Member {
	return cl.Members[i].DB.VerifRT().This()
}

// setUnreachable shuts / opens the RESP gate of member i. After opening it waits until every other live member
// can talk to it again through its own client pool (the pooled connections were killed).
func (cl *Cluster) setUnreachable(i int, down bool) error {
	cl.Members[i].DB.VerifServer().VerifSetUnreachable(down)
	if down {
		return nil
	}
	addr := cl.Members[i].Addr
	for j, m := range cl.Members {
		if j == i || !m.Alive {
			continue
		}
		ok := false
		var last error
		for t := 0; t < 100; t++ {
			ctx, cancel := context.WithTimeout(context.Background(), time.Second)
			last = m.DB.VerifClient().Get(addr).Ping(ctx).Err()
			cancel()
			if last == nil {
				ok = true
				break
			}
			time.Sleep(10 * time.Millisecond)
		}
		if !ok {
			return envErrorf("member %d cannot reach member %d after its listener was reopened: %v", j, i, last)
		}
	}
	return nil
}

func (cl *Cluster) installGates() {
	for _, m := range cl.Members {
		m.DB.VerifServer().VerifInstallGate()
	}
	// connections opened before the gates existed are unknown to them: drop every member's pooled clients so
	// that every connection in use from now on was accepted through a gate
	for _, m := range cl.Members {
		for addr := range m.DB.VerifClient().Addresses() {
			_ = m.DB.VerifClient().Close(addr)
		}
	}
}

// errEnum maps a Go error of the public API (or a RESP error text) to the small enum shared with the model.
func errEnum(err error) string {
	if err == nil {
		return "ok"
	}
	switch {
	case errors.Is(err, olric.ErrWriteQuorum):
		return "writequorum"
	case errors.Is(err, olric.ErrReadQuorum):
		return "readquorum"
	case errors.Is(err, olric.ErrClusterQuorum):
		return "clusterquorum"
	case errors.Is(err, olric.ErrKeyNotFound):
		return "notfound"
	case errors.Is(err, olric.ErrKeyTooLarge):
		return "keytoolarge"
	case errors.Is(err, olric.ErrEntryTooLarge):
		return "entrytoolarge"
	}
	return respEnum(err.Error())
}

func respEnum(s string) string {
	pfx := strings.SplitN(s, " ", 2)[0]
	switch pfx {
	case "WRITEQUORUM":
		return "writequorum"
	case "READQUORUM":
		return "readquorum"
	case "CLUSTERQUORUM":
		return "clusterquorum"
	case "KEYNOTFOUND":
		return "notfound"
	case "KEYTOOLARGE":
		return "keytoolarge"
	case "ENTRYTOOLARGE":
		return "entrytoolarge"
	}
	l := strings.ToLower(s)
	switch {
	case strings.Contains(l, "write quorum cannot"):
		return "writequorum"
	case strings.Contains(l, "read quorum cannot"):
		return "readquorum"
	case strings.Contains(l, "cluster quorum") || strings.Contains(l, "enough peers to create quorum"):
		return "clusterquorum"
	case strings.Contains(l, "key too large"):
		return "keytoolarge"
	case strings.Contains(l, "entry too large"):
		return "entrytoolarge"
	case strings.Contains(l, "key not found"):
		return "notfound"
	case strings.Contains(l, "eof") || strings.Contains(l, "connection re") || strings.Contains(l, "broken pipe") ||
		strings.Contains(l, "i/o timeout") || strings.Contains(l, "closed") || strings.Contains(l, "dial tcp"):
		return "neterr"
	}
	return "other"
}

type copyObs struct {
	Found bool   `json:"found"`
	Val   string `json:"val,omitempty"`
	TS    int64  `json:"ts,omitempty"`
	TTL   int64  `json:"ttl,omitempty"`
	// the stored bytes do not decode (a raw entry whose key length does not fit the one-byte length field)
	Corrupt bool `json:"corrupt,omitempty"`
}

func (cl *Cluster) copyOf(i int, kind partitions.Kind, name string, hkey uint64) (co copyObs) {
	defer func() {
		if r := recover(); r != nil {
			co = copyObs{Found: true, Corrupt: true}
		}
	}()
	c := cl.Members[i].DB.VerifDMap().VerifCopy(kind, name, hkey)
	if !c.Found {
		return copyObs{}
	}
	return copyObs{Found: true, Val: string(c.Value), TS: c.Timestamp, TTL: c.TTL}
}

// startClusterTogether starts all members concurrently: with MemberCountQuorum > 1 a member does not finish
// starting until it sees enough peers, so they cannot be started one after the other. Memberlist ports are
// chosen up front so that peers can be named before anybody runs.
func startClusterTogether(o ClusterOpts, tweak func(c *config.Config)) (*Cluster, error) {
	cl := &Cluster{Opts: o, raw: map[int]*redis.Client{}}
	n := o.Members
	type started struct {
		m   *Member
		err error
	}
	ch := make(chan started, n)
	var peers []string
	var dbs []*olric.Olric
	for i := 0; i < n; i++ {
		c := cl.newConfig()
		c.MemberlistConfig.BindPort = freePort()
		c.MemberlistConfig.AdvertisePort = c.MemberlistConfig.BindPort
		c.Peers = append([]string{}, peers...)
		if tweak != nil {
			tweak(c)
		}
		if err := c.Sanitize(); err != nil {
			return nil, err
		}
		if err := c.Validate(); err != nil {
			return nil, err
		}
		ctx, cancel := context.WithCancel(context.Background())
		c.Started = func() { cancel() }
		db, err := olric.New(c)
		if err != nil {
			return nil, err
		}
		dbs = append(dbs, db)
		mlAddr := net.JoinHostPort("127.0.0.1", strconv.Itoa(c.MemberlistConfig.BindPort))
		go func(c *config.Config, db *olric.Olric) {
			errc := make(chan error, 1)
			go func() {
				if err := db.Start(); err != nil {
					errc <- err
				}
			}()
			select {
			case <-ctx.Done():
				ch <- started{m: &Member{DB: db, Emb: db.NewEmbeddedClient(), Addr: c.MemberlistConfig.Name, Cfg: c, Alive: true}}
			case err := <-errc:
				ch <- started{err: fmt.Errorf("member failed to start: %w", err)}
			case <-time.After(25 * time.Second):
				ch <- started{err: fmt.Errorf("member did not start within 25s")}
			}
		}(c, db)
		// wait until its memberlist listens, so that the next member can join it
		for t := 0; t < 400; t++ {
			cn, err := net.DialTimeout("tcp", mlAddr, 200*time.Millisecond)
			if err == nil {
				cn.Close()
				break
			}
			time.Sleep(10 * time.Millisecond)
		}
		peers = append(peers, mlAddr)
	}
	byAddr := map[string]*Member{}
	var firstErr error
	for i := 0; i < n; i++ {
		s := <-ch
		if s.err != nil {
			if firstErr == nil {
				firstErr = s.err
			}
			continue
		}
		byAddr[s.m.DB.VerifName()] = s.m
	}
	for _, db := range dbs {
		if m, ok := byAddr[db.VerifName()]; ok {
			cl.Members = append(cl.Members, m)
		}
	}
	if firstErr != nil {
		for _, db := range dbs {
			ctx, cancel := context.WithTimeout(context.Background(), 3*time.Second)
			_ = db.Shutdown(ctx)
			cancel()
		}
		return nil, firstErr
	}
	if err := cl.WaitStable(20 * time.Second); err != nil {
		cl.Shutdown()
		return nil, err
	}
	return cl, nil
}
