//go:build verif

package main

import (
	"os"
	"bufio"
	"context"
	"encoding/hex"
	"encoding/json"
	"errors"
	"fmt"
	"sort"
	"strconv"
	"strings"
	"sync"
	"time"

	"github.com/olric-data/olric"
	"github.com/olric-data/olric/internal/cluster/partitions"
	"github.com/redis/go-redis/v9"
)

// dmapops: sequential DMap scenarios on a real in-process cluster. Input: first line = ClusterOpts (JSON),
// then one scenario per line {"id":..,"ops":[{...},...]}; output: one result per line {"id":..,"obs":[...]}.
// The cluster is started once and shared by all scenarios of the run (scenarios use their own DMap names).

type dOp struct {
	Op    string   `json:"op"`
	C     string   `json:"c"`  // client path: emb@owner | emb@other | emb@backup | emb<i> | cc | raw@owner | raw@other | raw<i> | pipe
	D     string   `json:"d"`  // dmap name
	K     string   `json:"k"`  // key (hex)
	Ks    []string `json:"ks"` // keys (hex) for multi-key delete
	V     string   `json:"v"`  // value (hex)
	EX    int64    `json:"ex"` // milliseconds, sent as seconds (must be a multiple of 1000 for raw paths)
	PX    int64    `json:"px"`
	EXAT  int64    `json:"exat"` // absolute, milliseconds since epoch; relative when Rel is set
	PXAT  int64    `json:"pxat"`
	Rel   bool     `json:"rel"` // EXAT/PXAT are offsets from now
	NX    bool     `json:"nx"`
	XX    bool     `json:"xx"`
	Ms    int64    `json:"ms"`    // sleep / expire / lease / lock timeout
	Dl    int64    `json:"dl"`    // lock deadline ms
	Delta int64    `json:"delta"` // incr/decr
	F     float64  `json:"f"`     // incrbyfloat
	Tok   string   `json:"tok"`   // lock handle name
	M     int      `json:"m"`     // member index for evict/janitor/compact
	Count int      `json:"count"`
	Match string   `json:"match"`
	Forge string   `json:"forge"` // hex token to present instead of the real one
	Batch []dOp    `json:"batch"` // pipebatch: the commands queued in one pipeline before Exec
	Cx    string   `json:"cx"`    // "expired": the caller's context is already past its deadline when the call is made
}

type dScenario struct {
	ID  int   `json:"id"`
	Ops []dOp `json:"ops"`
}

type dResult struct {
	ID  int                      `json:"id"`
	Obs []map[string]interface{} `json:"obs"`
	Env map[string]interface{}   `json:"env,omitempty"`
}

func olricErr(err error) string {
	if err == nil {
		return "ok"
	}
	switch {
	case errors.Is(err, olric.ErrKeyNotFound):
		return "notfound"
	case errors.Is(err, olric.ErrKeyFound):
		return "keyfound"
	case errors.Is(err, olric.ErrWriteQuorum):
		return "writequorum"
	case errors.Is(err, olric.ErrReadQuorum):
		return "readquorum"
	case errors.Is(err, olric.ErrLockNotAcquired):
		return "locknotacquired"
	case errors.Is(err, olric.ErrNoSuchLock):
		return "nosuchlock"
	case errors.Is(err, olric.ErrClusterQuorum):
		return "clusterquorum"
	case errors.Is(err, olric.ErrKeyTooLarge):
		return "keytoolarge"
	case errors.Is(err, olric.ErrEntryTooLarge):
		return "entrytoolarge"
	case errors.Is(err, redis.Nil):
		return "nil"
	}
	// raw RESP error prefixes
	s := err.Error()
	for _, p := range [][2]string{{"KEYNOTFOUND", "notfound"}, {"KEYFOUND", "keyfound"}, {"WRITEQUORUM", "writequorum"},
		{"READQUORUM", "readquorum"}, {"LOCKNOTACQUIRED", "locknotacquired"}, {"NOSUCHLOCK", "nosuchlock"},
		{"CLUSTERQUORUM", "clusterquorum"}, {"KEYTOOLARGE", "keytoolarge"}, {"ENTRYTOOLARGE", "entrytoolarge"}} {
		if strings.HasPrefix(s, p[0]) {
			return p[1]
		}
	}
	// errors wrapped with fmt.Errorf by lock.go ("unlock failed because of delete: ...")
	for _, p := range [][2]string{{"key not found", "notfound"}, {"no such lock", "nosuchlock"}, {"key found", "keyfound"}} {
		if strings.Contains(s, p[0]) {
			return p[1]
		}
	}
	return "other:" + s
}

var processStart = time.Now()

var (
	csMu sync.Mutex
	csIn = map[string]int{}
)

type dRunner struct {
	cl    *Cluster
	locks map[string]olric.LockContext
	rawTk map[string][2]string // handle -> (dmap, key) for raw tokens
	rawTv map[string]string    // handle -> token hex
	// DMap handles are opened once per client and name and reused, the way an application holds on to them
	// (a handle obtained before a Destroy keeps being used afterwards)
	handles map[string]olric.DMap
}

func (r *dRunner) memberFor(c string, ki KeyInfo) (int, error) {
	at := strings.SplitN(c, "@", 2)
	if len(at) == 2 {
		switch at[1] {
		case "owner":
			return ki.Owner, nil
		case "backup":
			if len(ki.Backups) > 0 {
				return ki.Backups[0], nil
			}
			return ki.Owner, nil
		case "other":
			isB := map[int]bool{}
			for _, b := range ki.Backups {
				isB[b] = true
			}
			for i, m := range r.cl.Members {
				if m.Alive && i != ki.Owner && !isB[i] {
					return i, nil
				}
			}
			for i, m := range r.cl.Members {
				if m.Alive && i != ki.Owner {
					return i, nil
				}
			}
			return ki.Owner, nil
		}
	}
	for _, pre := range []string{"emb", "raw"} {
		if strings.HasPrefix(c, pre) && len(c) > len(pre) {
			i, err := strconv.Atoi(c[len(pre):])
			if err == nil && i < len(r.cl.Members) {
				return i, nil
			}
		}
	}
	return 0, fmt.Errorf("bad client path %q", c)
}

func (r *dRunner) dmapFor(c string, name string, ki KeyInfo) (olric.DMap, int, error) {
	if c == "cc" || c == "pipe" {
		cc, err := r.cl.ClusterClient()
		if err != nil {
			return nil, -1, err
		}
		dm, err := r.handle(fmt.Sprintf("%p/%s", cc, name), func() (olric.DMap, error) { return cc.NewDMap(name) })
		return dm, -1, err
	}
	i, err := r.memberFor(c, ki)
	if err != nil {
		return nil, -1, err
	}
	emb := r.cl.Members[i].Emb
	dm, err := r.handle(fmt.Sprintf("%p/%s", emb, name), func() (olric.DMap, error) { return emb.NewDMap(name) })
	return dm, i, err
}

func (r *dRunner) handle(key string, open func() (olric.DMap, error)) (olric.DMap, error) {
	if os.Getenv("VERIF_FRESH_HANDLES") != "" {
		return open()
	}
	if dm, ok := r.handles[key]; ok {
		return dm, nil
	}
	dm, err := open()
	if err != nil {
		return nil, err
	}
	if r.handles == nil {
		r.handles = map[string]olric.DMap{}
	}
	r.handles[key] = dm
	return dm, nil
}

func putOptions(op *dOp) []olric.PutOption {
	var o []olric.PutOption
	now := time.Now()
	switch {
	case op.EX != 0:
		o = append(o, olric.EX(time.Duration(op.EX)*time.Millisecond))
	case op.PX != 0:
		o = append(o, olric.PX(time.Duration(op.PX)*time.Millisecond))
	case op.EXAT != 0:
		at := op.EXAT
		if op.Rel {
			at += now.UnixMilli()
		}
		o = append(o, olric.EXAT(time.Duration(at)*time.Millisecond))
	case op.PXAT != 0:
		at := op.PXAT
		if op.Rel {
			at += now.UnixMilli()
		}
		o = append(o, olric.PXAT(time.Duration(at)*time.Millisecond))
	}
	if op.NX {
		o = append(o, olric.NX())
	}
	if op.XX {
		o = append(o, olric.XX())
	}
	return o
}

func rawPutArgs(op *dOp, key string, val []byte) []interface{} {
	args := []interface{}{"DM.PUT", op.D, key, val}
	now := time.Now()
	switch {
	case op.EX != 0:
		args = append(args, "EX", strconv.FormatFloat(float64(op.EX)/1000, 'f', -1, 64))
	case op.PX != 0:
		args = append(args, "PX", op.PX)
	case op.EXAT != 0:
		at := op.EXAT
		if op.Rel {
			at += now.UnixMilli()
		}
		args = append(args, "EXAT", strconv.FormatFloat(float64(at)/1000, 'f', -1, 64))
	case op.PXAT != 0:
		at := op.PXAT
		if op.Rel {
			at += now.UnixMilli()
		}
		args = append(args, "PXAT", at)
	}
	if op.NX {
		args = append(args, "NX")
	}
	if op.XX {
		args = append(args, "XX")
	}
	return args
}

func (r *dRunner) dump(d, key string) []map[string]interface{} {
	h := partitions.HKey(d, key)
	var out []map[string]interface{}
	for i, m := range r.cl.Members {
		if !m.Alive {
			continue
		}
		for _, kind := range []partitions.Kind{partitions.PRIMARY, partitions.BACKUP} {
			c := m.DB.VerifDMap().VerifCopy(kind, d, h)
			if c.Found {
				k := "p"
				if kind == partitions.BACKUP {
					k = "b"
				}
				out = append(out, map[string]interface{}{"m": i, "kind": k, "val": hex.EncodeToString(c.Value),
					"ttl": c.TTL, "ts": c.Timestamp, "key": hex.EncodeToString([]byte(c.Key)), "la": c.LastAccess})
			}
		}
	}
	if out == nil {
		out = []map[string]interface{}{}
	}
	return out
}

func (r *dRunner) runOp(op *dOp) map[string]interface{} {
	ctx, cancel := context.WithTimeout(context.Background(), 20*time.Second)
	defer cancel()
	if op.Cx == "expired" {
		c2, cancel2 := context.WithDeadline(context.Background(), time.Now().Add(-time.Second))
		defer cancel2()
		ctx = c2
	}
	ob := map[string]interface{}{}
	keyb, _ := hex.DecodeString(op.K)
	key := string(keyb)
	val, _ := hex.DecodeString(op.V)
	var ki KeyInfo
	if op.D != "" && op.Op != "destroy" && op.Op != "scan" && op.Op != "iterscan" && op.Op != "hstate" && op.Op != "mdel" && op.Op != "stats" && op.Op != "fragkeys" && op.Op != "cs" && op.Op != "compactrace" && op.Op != "pipebatch" {
		ki = r.cl.KeyInfo(op.D, key)
		ob["part"] = ki.Part
	}
	israw := strings.HasPrefix(op.C, "raw")
	t0 := time.Now()
	defer func() {
		t1 := time.Now()
		ob["t0"] = t0.UnixMilli()
		ob["t1"] = t1.UnixMilli()
		// monotonic nanoseconds since the harness started (concurrent histories)
		ob["n0"] = t0.Sub(processStart).Nanoseconds()
		ob["n1"] = t1.Sub(processStart).Nanoseconds()
	}()
	switch op.Op {
	case "pipebatch":
		// several commands (put with options, get, getput, incr, decr, del, expire; different keys) queued in ONE pipeline of
		// the cluster client, then Exec; one observation per command in "results"
		cc, err := r.cl.ClusterClient()
		if err != nil {
			ob["r"] = olricErr(err)
			return ob
		}
		dm, err := r.handle(fmt.Sprintf("%p/%s", cc, op.D), func() (olric.DMap, error) { return cc.NewDMap(op.D) })
		if err != nil {
			ob["r"] = olricErr(err)
			return ob
		}
		p, err := dm.Pipeline()
		if err != nil {
			ob["r"] = olricErr(err)
			return ob
		}
		defer p.Discard()
		results := make([]map[string]interface{}, len(op.Batch))
		fin := make([]func(map[string]interface{}), len(op.Batch))
		for i := range op.Batch {
			b := &op.Batch[i]
			results[i] = map[string]interface{}{}
			kb, _ := hex.DecodeString(b.K)
			bkey := string(kb)
			bval, _ := hex.DecodeString(b.V)
			var qerr error
			switch b.Op {
			case "put":
				f, err := p.Put(ctx, bkey, bval, putOptions(b)...)
				qerr = err
				if err == nil {
					fin[i] = func(o map[string]interface{}) { o["r"] = olricErr(f.Result()) }
				}
			case "get":
				f := p.Get(ctx, bkey)
				fin[i] = func(o map[string]interface{}) {
					g, err := f.Result()
					o["r"] = olricErr(err)
					if err == nil {
						v, _ := g.Byte()
						o["val"] = hex.EncodeToString(v)
						o["ttl"] = g.TTL()
					}
				}
			case "getput":
				f, err := p.GetPut(ctx, bkey, bval)
				qerr = err
				if err == nil {
					fin[i] = func(o map[string]interface{}) {
						g, err := f.Result()
						if err != nil && !errors.Is(err, redis.Nil) && !errors.Is(err, olric.ErrNilResponse) {
							o["r"] = olricErr(err)
							return
						}
						o["r"] = "ok"
						o["old"] = nil
						if g != nil {
							if v, e := g.Byte(); e == nil {
								o["old"] = hex.EncodeToString(v)
							}
						}
					}
				}
			case "incr", "decr":
				if b.Op == "incr" {
					f, err := p.Incr(ctx, bkey, int(b.Delta))
					qerr = err
					if err == nil {
						fin[i] = func(o map[string]interface{}) { n, err := f.Result(); o["r"] = olricErr(err); o["n"] = n }
					}
				} else {
					f, err := p.Decr(ctx, bkey, int(b.Delta))
					qerr = err
					if err == nil {
						fin[i] = func(o map[string]interface{}) { n, err := f.Result(); o["r"] = olricErr(err); o["n"] = n }
					}
				}
			case "del":
				f := p.Delete(ctx, bkey)
				fin[i] = func(o map[string]interface{}) { n, err := f.Result(); o["r"] = olricErr(err); o["n"] = n }
			case "expire":
				f, err := p.Expire(ctx, bkey, time.Duration(b.Ms)*time.Millisecond)
				qerr = err
				if err == nil {
					fin[i] = func(o map[string]interface{}) { o["r"] = olricErr(f.Result()) }
				}
			default:
				qerr = fmt.Errorf("harness: unknown batch op %q", b.Op)
			}
			if qerr != nil {
				results[i]["r"] = olricErr(qerr)
			}
		}
		if err := p.Exec(ctx); err != nil {
			ob["r"] = olricErr(err)
			return ob
		}
		for i, f := range fin {
			if f != nil {
				f(results[i])
			}
		}
		ob["r"] = "ok"
		ob["results"] = results
	case "sleep":
		time.Sleep(time.Duration(op.Ms) * time.Millisecond)
		ob["r"] = "ok"
	case "put":
		if israw {
			i, err := r.memberFor(op.C, ki)
			if err != nil {
				ob["r"] = "harness:" + err.Error()
				return ob
			}
			err = r.cl.Raw(i).Do(ctx, rawPutArgs(op, key, val)...).Err()
			ob["r"] = olricErr(err)
			return ob
		}
		dm, _, err := r.dmapFor(op.C, op.D, ki)
		if err != nil {
			ob["r"] = olricErr(err)
			return ob
		}
		if op.C == "pipe" {
			p, err := dm.Pipeline()
			if err != nil {
				ob["r"] = olricErr(err)
				return ob
			}
			f, err := p.Put(ctx, key, val, putOptions(op)...)
			if err != nil {
				ob["r"] = olricErr(err)
				return ob
			}
			if err := p.Exec(ctx); err != nil {
				ob["r"] = olricErr(err)
				return ob
			}
			ob["r"] = olricErr(f.Result())
			_ = p.Discard() // returns the command slices to the shared pool (and closes the pipeline)
			return ob
		}
		ob["r"] = olricErr(dm.Put(ctx, key, val, putOptions(op)...))
	case "get":
		if israw {
			i, _ := r.memberFor(op.C, ki)
			res, err := r.cl.Raw(i).Do(ctx, "DM.GET", op.D, key).Result()
			ob["r"] = olricErr(err)
			if err == nil {
				ob["val"] = hex.EncodeToString([]byte(fmt.Sprint(res)))
			}
			return ob
		}
		dm, _, err := r.dmapFor(op.C, op.D, ki)
		if err != nil {
			ob["r"] = olricErr(err)
			return ob
		}
		var gr *olric.GetResponse
		if op.C == "pipe" {
			p, err := dm.Pipeline()
			if err != nil {
				ob["r"] = olricErr(err)
				return ob
			}
			f := p.Get(ctx, key)
			if err := p.Exec(ctx); err != nil {
				ob["r"] = olricErr(err)
				return ob
			}
			gr, err = f.Result()
			_ = p.Discard() // returns the command slices to the shared pool (and closes the pipeline)
			ob["r"] = olricErr(err)
			if err != nil {
				return ob
			}
		} else {
			gr, err = dm.Get(ctx, key)
			ob["r"] = olricErr(err)
			if err != nil {
				return ob
			}
		}
		b, err := gr.Byte()
		if err != nil {
			ob["r"] = "other:" + err.Error()
			return ob
		}
		ob["val"] = hex.EncodeToString(b)
		ob["ttl"] = gr.TTL()
		ob["ts"] = gr.Timestamp()
	case "del", "mdel":
		keys := []string{key}
		if op.Op == "mdel" {
			keys = nil
			for _, k := range op.Ks {
				kb, _ := hex.DecodeString(k)
				keys = append(keys, string(kb))
			}
			if len(keys) > 0 {
				ki = r.cl.KeyInfo(op.D, keys[0])
			}
		}
		if israw {
			i, _ := r.memberFor(op.C, ki)
			args := []interface{}{"DM.DEL", op.D}
			for _, k := range keys {
				args = append(args, k)
			}
			n, err := r.cl.Raw(i).Do(ctx, args...).Int()
			ob["r"] = olricErr(err)
			ob["n"] = n
			return ob
		}
		dm, _, err := r.dmapFor(op.C, op.D, ki)
		if err != nil {
			ob["r"] = olricErr(err)
			return ob
		}
		if op.C == "pipe" {
			p, err := dm.Pipeline()
			if err != nil {
				ob["r"] = olricErr(err)
				return ob
			}
			var fs []*olric.FutureDelete
			for _, k := range keys {
				fs = append(fs, p.Delete(ctx, k))
			}
			if err := p.Exec(ctx); err != nil {
				ob["r"] = olricErr(err)
				return ob
			}
			total := 0
			var ferr error
			for _, f := range fs {
				n, err := f.Result()
				if err != nil {
					ferr = err
				}
				total += n
			}
			_ = p.Discard() // returns the command slices to the shared pool (and closes the pipeline)
			ob["r"] = olricErr(ferr)
			ob["n"] = total
			return ob
		}
		n, err := dm.Delete(ctx, keys...)
		ob["r"] = olricErr(err)
		ob["n"] = n
	case "expire":
		if israw {
			i, _ := r.memberFor(op.C, ki)
			err := r.cl.Raw(i).Do(ctx, "DM.PEXPIRE", op.D, key, op.Ms).Err()
			ob["r"] = olricErr(err)
			return ob
		}
		dm, _, err := r.dmapFor(op.C, op.D, ki)
		if err != nil {
			ob["r"] = olricErr(err)
			return ob
		}
		if op.C == "pipe" {
			p, _ := dm.Pipeline()
			f, err := p.Expire(ctx, key, time.Duration(op.Ms)*time.Millisecond)
			if err != nil {
				ob["r"] = olricErr(err)
				return ob
			}
			if err := p.Exec(ctx); err != nil {
				ob["r"] = olricErr(err)
				return ob
			}
			ob["r"] = olricErr(f.Result())
			_ = p.Discard() // returns the command slices to the shared pool (and closes the pipeline)
			return ob
		}
		ob["r"] = olricErr(dm.Expire(ctx, key, time.Duration(op.Ms)*time.Millisecond))
	case "getput":
		if israw {
			i, _ := r.memberFor(op.C, ki)
			res, err := r.cl.Raw(i).Do(ctx, "DM.GETPUT", op.D, key, val).Result()
			if errors.Is(err, redis.Nil) {
				ob["r"] = "ok"
				ob["old"] = nil
				return ob
			}
			ob["r"] = olricErr(err)
			if err == nil {
				ob["old"] = hex.EncodeToString([]byte(fmt.Sprint(res)))
			}
			return ob
		}
		dm, _, err := r.dmapFor(op.C, op.D, ki)
		if err != nil {
			ob["r"] = olricErr(err)
			return ob
		}
		var gr *olric.GetResponse
		if op.C == "pipe" {
			p, _ := dm.Pipeline()
			f, err := p.GetPut(ctx, key, val)
			if err != nil {
				ob["r"] = olricErr(err)
				return ob
			}
			if err := p.Exec(ctx); err != nil {
				ob["r"] = olricErr(err)
				return ob
			}
			gr, err = f.Result()
			_ = p.Discard() // returns the command slices to the shared pool (and closes the pipeline)
			if err != nil && !errors.Is(err, redis.Nil) {
				ob["r"] = olricErr(err)
				return ob
			}
			if err != nil {
				gr = nil
			}
		} else {
			gr, err = dm.GetPut(ctx, key, val)
			if err != nil {
				ob["r"] = olricErr(err)
				return ob
			}
		}
		ob["r"] = "ok"
		ob["old"] = nil
		if gr != nil {
			b, err := gr.Byte()
			if err == nil {
				ob["old"] = hex.EncodeToString(b)
			}
		}
	case "incr", "decr":
		if israw {
			i, _ := r.memberFor(op.C, ki)
			name := "DM.INCR"
			if op.Op == "decr" {
				name = "DM.DECR"
			}
			n, err := r.cl.Raw(i).Do(ctx, name, op.D, key, op.Delta).Int64()
			ob["r"] = olricErr(err)
			ob["n"] = n
			return ob
		}
		dm, _, err := r.dmapFor(op.C, op.D, ki)
		if err != nil {
			ob["r"] = olricErr(err)
			return ob
		}
		var n int
		if op.C == "pipe" {
			p, _ := dm.Pipeline()
			if op.Op == "incr" {
				f, err := p.Incr(ctx, key, int(op.Delta))
				if err == nil {
					err = p.Exec(ctx)
				}
				if err == nil {
					n, err = f.Result()
				}
				ob["r"] = olricErr(err)
			} else {
				f, err := p.Decr(ctx, key, int(op.Delta))
				if err == nil {
					err = p.Exec(ctx)
				}
				if err == nil {
					n, err = f.Result()
				}
				ob["r"] = olricErr(err)
			}
			_ = p.Discard() // returns the command slices to the shared pool (and closes the pipeline)
			ob["n"] = n
			return ob
		}
		if op.Op == "incr" {
			n, err = dm.Incr(ctx, key, int(op.Delta))
		} else {
			n, err = dm.Decr(ctx, key, int(op.Delta))
		}
		ob["r"] = olricErr(err)
		ob["n"] = n
	case "incrbyfloat":
		dm, _, err := r.dmapFor(op.C, op.D, ki)
		if err != nil {
			ob["r"] = olricErr(err)
			return ob
		}
		f, err := dm.IncrByFloat(ctx, key, op.F)
		ob["r"] = olricErr(err)
		ob["f"] = f
	case "lock":
		if israw {
			i, _ := r.memberFor(op.C, ki)
			args := []interface{}{"DM.LOCK", op.D, key, strconv.FormatFloat(float64(op.Dl)/1000, 'f', -1, 64)}
			if op.Ms != 0 {
				if op.EX != 0 {
					// the EX form: seconds, possibly fractional (op.EX != 0 only selects the form, the timeout is op.Ms)
					args = append(args, "EX", strconv.FormatFloat(float64(op.Ms)/1000, 'f', -1, 64))
				} else {
					args = append(args, "PX", op.Ms)
				}
			}
			tok, err := r.cl.Raw(i).Do(ctx, args...).Text()
			ob["r"] = olricErr(err)
			if err == nil {
				r.rawTk[op.Tok] = [2]string{op.D, key}
				r.rawTv[op.Tok] = tok
			}
			return ob
		}
		dm, _, err := r.dmapFor(op.C, op.D, ki)
		if err != nil {
			ob["r"] = olricErr(err)
			return ob
		}
		var lc olric.LockContext
		if op.Ms != 0 {
			lc, err = dm.LockWithTimeout(ctx, key, time.Duration(op.Ms)*time.Millisecond, time.Duration(op.Dl)*time.Millisecond)
		} else {
			lc, err = dm.Lock(ctx, key, time.Duration(op.Dl)*time.Millisecond)
		}
		ob["r"] = olricErr(err)
		if err == nil {
			r.locks[op.Tok] = lc
		}
	case "unlock", "lease":
		if tv, ok := r.rawTv[op.Tok]; ok || op.Forge != "" {
			dk := r.rawTk[op.Tok]
			d, k := dk[0], dk[1]
			if op.Forge != "" {
				tv = op.Forge
				d, k = op.D, key
			}
			kinfo := r.cl.KeyInfo(d, k)
			c := op.C
			if !strings.HasPrefix(c, "raw") {
				c = "raw@owner"
			}
			i, _ := r.memberFor(c, kinfo)
			var err error
			if op.Op == "unlock" {
				err = r.cl.Raw(i).Do(ctx, "DM.UNLOCK", d, k, tv).Err()
			} else {
				err = r.cl.Raw(i).Do(ctx, "DM.PLOCKLEASE", d, k, tv, op.Ms).Err()
			}
			ob["r"] = olricErr(err)
			return ob
		}
		lc, ok := r.locks[op.Tok]
		if !ok {
			ob["r"] = "harness:no such lock handle"
			return ob
		}
		if op.Op == "unlock" {
			ob["r"] = olricErr(lc.Unlock(ctx))
		} else {
			ob["r"] = olricErr(lc.Lease(ctx, time.Duration(op.Ms)*time.Millisecond))
		}
	case "unlockdup":
		// the holder's Unlock sent op.Count times at once (a duplicated / re-sent request): the token is valid for
		// exactly one of them
		n := op.Count
		if n < 2 {
			n = 2
		}
		rs := make([]string, n)
		var wg sync.WaitGroup
		if tv, ok := r.rawTv[op.Tok]; ok {
			dk := r.rawTk[op.Tok]
			kinfo := r.cl.KeyInfo(dk[0], dk[1])
			for j := 0; j < n; j++ {
				c := "raw@owner"
				if j%2 == 1 {
					c = "raw@other"
				}
				i, _ := r.memberFor(c, kinfo)
				wg.Add(1)
				go func(j, i int) {
					defer wg.Done()
					rs[j] = olricErr(r.cl.Raw(i).Do(ctx, "DM.UNLOCK", dk[0], dk[1], tv).Err())
				}(j, i)
			}
		} else if lc, ok := r.locks[op.Tok]; ok {
			for j := 0; j < n; j++ {
				wg.Add(1)
				go func(j int) {
					defer wg.Done()
					rs[j] = olricErr(lc.Unlock(ctx))
				}(j)
			}
		} else {
			ob["r"] = "harness:no such lock handle"
			return ob
		}
		wg.Wait()
		ob["rs"] = rs
		ob["r"] = "done"
	case "destroy":
		ki = r.cl.KeyInfo(op.D, "x")
		if israw {
			i, _ := r.memberFor(op.C, ki)
			ob["r"] = olricErr(r.cl.Raw(i).Do(ctx, "DM.DESTROY", op.D).Err())
			return ob
		}
		dm, _, err := r.dmapFor(op.C, op.D, ki)
		if err != nil {
			ob["r"] = olricErr(err)
			return ob
		}
		ob["r"] = olricErr(dm.Destroy(ctx))
	case "scan":
		ki = r.cl.KeyInfo(op.D, "x")
		dm, _, err := r.dmapFor(op.C, op.D, ki)
		if err != nil {
			ob["r"] = olricErr(err)
			return ob
		}
		var so []olric.ScanOption
		if op.Count > 0 {
			so = append(so, olric.Count(op.Count))
		}
		if op.Match != "" {
			so = append(so, olric.Match(op.Match))
		}
		it, err := dm.Scan(ctx, so...)
		if err != nil {
			ob["r"] = olricErr(err)
			return ob
		}
		keys := []string{}
		n := 0
		for it.Next() && n < 100000 {
			keys = append(keys, hex.EncodeToString([]byte(it.Key())))
			n++
		}
		it.Close()
		sort.Strings(keys)
		ob["r"] = "ok"
		ob["keys"] = keys
	case "iterscan":
		r.iterScan(op, ob)
	case "hstate":
		for k, v := range r.hstate(op.D) {
			ob[k] = v
		}
	case "fragnames":
		// the names of the fragments that hold at least one entry, over all live members, partitions and kinds; and the
		// fragment name the DMap service derives for DMap D
		seen := map[string]bool{}
		for _, m := range r.cl.Members {
			if !m.Alive {
				continue
			}
			for p := uint64(0); p < m.Cfg.PartitionCount; p++ {
				for _, kind := range []partitions.Kind{partitions.PRIMARY, partitions.BACKUP} {
					for _, n := range m.DB.VerifDMap().VerifFragmentNames(kind, p) {
						if !strings.HasPrefix(n, "dmap.") {
							continue
						}
						if ok, st := m.DB.VerifDMap().VerifFragmentStats(kind, strings.TrimPrefix(n, "dmap."), p); ok && st.Length > 0 {
							seen[n] = true
						}
					}
				}
			}
		}
		var names []string
		for n := range seen {
			names = append(names, hex.EncodeToString([]byte(n)))
		}
		sort.Strings(names)
		ob["r"] = "ok"
		ob["names"] = names
		if op.D != "" {
			for _, m := range r.cl.Members {
				if m.Alive {
					ob["fn"] = hex.EncodeToString([]byte(m.DB.VerifDMap().VerifFragmentName(op.D)))
					break
				}
			}
		}
	case "dump":
		ob["r"] = "ok"
		ob["copies"] = r.dump(op.D, key)
	case "evict":
		// one eviction pass over every primary fragment of member M (what evictKeys does for one random partition)
		m := r.cl.Members[op.M]
		m.DB.VerifDMap().VerifEvictAll()
		ob["r"] = "ok"
	case "janitor":
		r.cl.Members[op.M].DB.VerifDMap().VerifJanitor()
		ob["r"] = "ok"
	case "compact":
		m := r.cl.Members[op.M]
		n := 0
		for p := uint64(0); p < m.Cfg.PartitionCount; p++ {
			n += m.DB.VerifDMap().VerifCompactFragment(partitions.PRIMARY, op.D, p)
			n += m.DB.VerifDMap().VerifCompactFragment(partitions.BACKUP, op.D, p)
		}
		ob["r"] = "ok"
		ob["n"] = n
	case "compactworker":
		// the REAL compaction pass of member M (triggerCompaction: all partitions, primary and backup fragments)
		t := time.Now()
		if r.cl.Members[op.M].DB.VerifDMap().VerifTriggerCompaction(15 * time.Second) {
			ob["r"] = "ok"
		} else {
			ob["r"] = "hung"
		}
		ob["ms"] = time.Since(t).Milliseconds()
	case "compactrace":
		// the real compaction pass of every member runs while DMap D is destroyed through member 0's embedded client
		// (op.Ms microseconds after the passes were started)
		results := make(chan bool, len(r.cl.Members))
		n := 0
		for _, m := range r.cl.Members {
			if m.Alive {
				n++
				go func(m *Member) { results <- m.DB.VerifDMap().VerifTriggerCompaction(8 * time.Second) }(m)
			}
		}
		time.Sleep(time.Duration(op.Ms) * time.Microsecond)
		ki = r.cl.KeyInfo(op.D, "x")
		dm, _, err := r.dmapFor("emb@owner", op.D, ki)
		if err != nil {
			ob["r"] = olricErr(err)
			return ob
		}
		ob["destroy"] = olricErr(dm.Destroy(ctx))
		ob["r"] = "ok"
		for i := 0; i < n; i++ {
			if !<-results {
				ob["r"] = "hung"
			}
		}
	case "stats":
		// per member, per kind: totals over all partitions for dmap D, plus per-partition length / inuse
		var out []map[string]interface{}
		for i, m := range r.cl.Members {
			if !m.Alive {
				continue
			}
			for _, kind := range []partitions.Kind{partitions.PRIMARY, partitions.BACKUP} {
				tot := map[string]interface{}{"m": i, "kind": "p"}
				if kind == partitions.BACKUP {
					tot["kind"] = "b"
				}
				var alloc, inuse, garb, ln, tabs, frags int
				var perPart [][3]int
				for p := uint64(0); p < m.Cfg.PartitionCount; p++ {
					ok, st := m.DB.VerifDMap().VerifFragmentStats(kind, op.D, p)
					if ok {
						frags++
						alloc += st.Allocated
						inuse += st.Inuse
						garb += st.Garbage
						ln += st.Length
						tabs += st.NumTables
						perPart = append(perPart, [3]int{int(p), st.Length, st.Inuse})
					}
				}
				tot["alloc"], tot["inuse"], tot["garb"], tot["len"], tot["tables"], tot["frags"] = alloc, inuse, garb, ln, tabs, frags
				tot["parts"] = perPart
				out = append(out, tot)
			}
		}
		ob["r"] = "ok"
		ob["stats"] = out
		owned := []uint64{}
		for _, m := range r.cl.Members {
			if m.Alive {
				owned = append(owned, m.DB.VerifRT().OwnedPartitionCount())
			}
		}
		ob["owned"] = owned
	case "fragkeys":
		// keys held by every primary fragment of dmap D: [[member, part, [keyhex...]], ...]
		var out []interface{}
		for i, m := range r.cl.Members {
			if !m.Alive {
				continue
			}
			for p := uint64(0); p < m.Cfg.PartitionCount; p++ {
				ks := m.DB.VerifDMap().VerifFragmentKeys(partitions.PRIMARY, op.D, p)
				if len(ks) == 0 {
					continue
				}
				var l []string
				for _, k := range ks {
					l = append(l, hex.EncodeToString([]byte(k)))
				}
				sort.Strings(l)
				out = append(out, []interface{}{i, p, l})
			}
		}
		ob["r"] = "ok"
		ob["frags"] = out
	case "cs":
		// critical section guarded by a lock the client believes it holds: count concurrent occupants
		if _, ok := r.locks[op.Tok]; !ok {
			if _, ok2 := r.rawTv[op.Tok]; !ok2 {
				ob["r"] = "skipped" // the client's Lock was refused: it stays outside
				return ob
			}
		}
		csMu.Lock()
		csIn[op.K]++
		n := csIn[op.K]
		csMu.Unlock()
		time.Sleep(time.Duration(op.Ms) * time.Millisecond)
		csMu.Lock()
		if csIn[op.K] > n {
			n = csIn[op.K]
		}
		csIn[op.K]--
		csMu.Unlock()
		ob["r"] = "ok"
		ob["occupants"] = n
	case "keyinfo":
		ob["r"] = "ok"
		ob["hkey"] = fmt.Sprint(ki.HKey)
		ob["part"] = ki.Part
		ob["owner"] = ki.Owner
		ob["backups"] = ki.Backups
	default:
		ob["r"] = "harness:unknown op " + op.Op
	}
	return ob
}

func init() {
	register("dmapops", func(args []string, in *bufio.Reader, out *bufio.Writer) error {
		dec := json.NewDecoder(in)
		var co ClusterOpts
		if err := dec.Decode(&co); err != nil {
			return err
		}
		cl, err := StartCluster(co)
		if err != nil {
			return err
		}
		defer cl.Shutdown()
		for dec.More() {
			var sc dScenario
			if err := dec.Decode(&sc); err != nil {
				return err
			}
			r := &dRunner{cl: cl, locks: map[string]olric.LockContext{}, rawTk: map[string][2]string{}, rawTv: map[string]string{}}
			res := dResult{ID: sc.ID}
			for i := range sc.Ops {
				res.Obs = append(res.Obs, r.runOp(&sc.Ops[i]))
			}
			enc, _ := json.Marshal(res)
			out.Write(enc)
			out.WriteString("\n")
			out.Flush()
		}
		return nil
	})
}
