//go:build verif

package main

import (
	"bufio"
	"encoding/json"
	"io"
	"sort"
	"time"

	"github.com/olric-data/olric/internal/locker"
)

// locker: the real internal/locker driven by goroutines, one call at a time, observed at quiescence.
// Input: one scenario per line {"id":1,"threads":3,"ops":[{"op":"lock","t":0,"n":"a"},{"op":"unlock","n":"a"},...]}
//   lock   : thread t (if it is idle) calls Lock(n) in its own goroutine; the driver waits for it to return: 5 s when the name is
//            free (it has to), 40 ms when somebody holds it (it must not)
//   unlock : the thread that holds n (the driver knows it) calls Unlock(n); the driver then waits (up to 5 s) for ONE of
//            the blocked Lock(n) calls to return
// Output: per op {"skip":true} or {"t":..,"ret":bool} / {"t":..,"err":bool,"woken":tid|-1}, each with the names in the
// Locker's map, the holders and the blocked threads after the call.

func init() { register("locker", lockerMain) }

type lkOp struct {
	Op string `json:"op"`
	T  int    `json:"t"`
	N  string `json:"n"`
}

type lkScenario struct {
	ID      int    `json:"id"`
	Threads int    `json:"threads"`
	Ops     []lkOp `json:"ops"`
}

func lockerMain(args []string, in *bufio.Reader, out *bufio.Writer) error {
	for {
		line, err := in.ReadBytes('\n')
		if len(line) > 1 {
			var sc lkScenario
			if e := json.Unmarshal(line, &sc); e != nil {
				return e
			}
			res := map[string]interface{}{"id": sc.ID, "obs": lockerRun(&sc)}
			b, _ := json.Marshal(res)
			out.Write(b)
			out.WriteByte('\n')
			out.Flush()
		}
		if err == io.EOF {
			return nil
		}
		if err != nil {
			return err
		}
	}
}

func lockerRun(sc *lkScenario) []map[string]interface{} {
	l := locker.New()
	const wait = 40 * time.Millisecond
	state := make([]string, sc.Threads)  // "" idle, "w:<n>" blocked, "h:<n>" holding
	done := make([]chan struct{}, sc.Threads)
	holder := map[string]int{}
	var obs []map[string]interface{}
	snapshot := func(o map[string]interface{}) {
		o["names"] = l.VerifNames()
		hs := [][2]interface{}{}
		bs := []int{}
		for t, s := range state {
			if len(s) > 2 && s[0] == 'h' {
				hs = append(hs, [2]interface{}{t, s[2:]})
			}
			if len(s) > 2 && s[0] == 'w' {
				bs = append(bs, t)
			}
		}
		o["holders"] = hs
		o["blocked"] = bs
	}
	for _, op := range sc.Ops {
		o := map[string]interface{}{}
		switch op.Op {
		case "lock":
			if op.T < 0 || op.T >= sc.Threads || state[op.T] != "" {
				o["skip"] = true
				break
			}
			ch := make(chan struct{})
			done[op.T] = ch
			go func(n string) {
				l.Lock(n)
				close(ch)
			}(op.N)
			o["t"] = op.T
			// the driver knows whether somebody holds the name: a call on a free name has to return (a slow machine gets 5 s),
			// a call on a held name is given 40 ms to show that it does not
			w := wait
			if _, held := holder[op.N]; !held {
				w = 5 * time.Second
			}
			select {
			case <-ch:
				state[op.T] = "h:" + op.N
				holder[op.N] = op.T
				o["ret"] = true
			case <-time.After(w):
				state[op.T] = "w:" + op.N
				o["ret"] = false
			}
		case "unlock":
			t, ok := holder[op.N]
			if !ok {
				o["skip"] = true
				break
			}
			e := l.Unlock(op.N)
			o["t"] = t
			o["err"] = e != nil
			delete(holder, op.N)
			state[t] = ""
			// which blocked Lock(n) returns?
			woken := -1
			var waiting []int
			for w, s := range state {
				if s == "w:"+op.N {
					waiting = append(waiting, w)
				}
			}
			sort.Ints(waiting)
			// somebody waits for the name: one of them has to get it (5 s on a slow machine)
			deadline := time.After(5 * time.Second)
		poll:
			for len(waiting) > 0 {
				for _, w := range waiting {
					select {
					case <-done[w]:
						woken = w
						break poll
					default:
					}
				}
				select {
				case <-deadline:
					break poll
				case <-time.After(time.Millisecond):
				}
			}
			if woken >= 0 {
				state[woken] = "h:" + op.N
				holder[op.N] = woken
			}
			o["woken"] = woken
		default:
			o["skip"] = true
		}
		if o["skip"] == nil {
			// a second blocked call must not have slipped through: give it a moment and look again
			for w, s := range state {
				if len(s) > 2 && s[0] == 'w' {
					select {
					case <-done[w]:
						o["extra_return"] = w
					default:
					}
				}
			}
			snapshot(o)
		}
		obs = append(obs, o)
	}
	// let the goroutines that are still blocked go: unlock until nobody waits
	for n, _ := range holder {
		_ = l.Unlock(n)
	}
	return obs
}
