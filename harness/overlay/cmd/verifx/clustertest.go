//go:build verif

package main

import (
	"bufio"
	"context"
	"fmt"
	"time"

	"github.com/olric-data/olric/internal/cluster/partitions"
)

// clustertest: smoke test of the cluster helper (used by setup to warm the build cache).
func init() {
	register("clustertest", func(args []string, in *bufio.Reader, out *bufio.Writer) error {
		t0 := time.Now()
		cl, err := StartCluster(ClusterOpts{Members: 3, Replicas: 2, Partitions: 7, TableSize: 1024})
		if err != nil {
			return err
		}
		defer cl.Shutdown()
		fmt.Fprintf(out, "cluster up in %v\n", time.Since(t0))
		ctx := context.Background()
		dm, err := cl.Members[0].Emb.NewDMap("d")
		if err != nil {
			return err
		}
		if err := dm.Put(ctx, "k", "v"); err != nil {
			return err
		}
		ki := cl.KeyInfo("d", "k")
		fmt.Fprintf(out, "key info %+v\n", ki)
		for i, m := range cl.Members {
			fmt.Fprintf(out, "member %d primary %+v backup %+v\n", i, m.DB.VerifDMap().VerifCopy(partitions.PRIMARY, "d", ki.HKey).Found, m.DB.VerifDMap().VerifCopy(partitions.BACKUP, "d", ki.HKey).Found)
		}
		cc, err := cl.ClusterClient()
		if err != nil {
			return err
		}
		cdm, err := cc.NewDMap("d")
		if err != nil {
			return err
		}
		gr, err := cdm.Get(ctx, "k")
		if err != nil {
			return err
		}
		s, _ := gr.String()
		fmt.Fprintf(out, "cluster client get: %s\n", s)
		r, err := cl.Raw(1).Do(ctx, "DM.GET", "d", "k").Result()
		fmt.Fprintf(out, "raw get: %v %v\n", r, err)
		return nil
	})
}
