//go:build verif

package main

import (
	"bufio"
	"encoding/json"
	"fmt"
	"io"
	"net"
	"os"
	"sort"
	"strconv"
	"sync"
	"time"

	"github.com/tidwall/match"
)

// pubsub: run Pub/Sub scenarios (C14) on real in-process clusters over raw RESP connections.
//
// scenario  {"id":n, "members":1..3, "conns":[member index of scripted connection 0, 1, ...], "ops":[...]}
// ops       ["sub",c,ch...] ["psub",c,pat...] ["unsub",c,ch...] ["punsub",c,pat...]   (no names = all)
//           ["disc",c]                         client closes the socket of connection c
//           ["pub",m,ch,payload]               PUBLISH through the control connection of member m
//           ["cpub",[[m,ch,k,tag],...]]        concurrent publishers, one fresh connection each, publisher j
//                                              sends payloads tag.0 .. tag.(k-1) in that order
//           ["channels",m] ["channels",m,pat] ["numsub",m,ch...] ["numpat",m]
// result    {"id":n, "obs":[{"r":reply,"d":[[pushes received by connection 0 since the last op],...]}],
//            "glob":[[pattern,string,bool],...] (tidwall/match on every pair of names of the scenario),
//            "cleanup":"ok"|"timeout"}
// After every operation every open scripted connection is flushed by a PING barrier: PUBLISH writes to the
// subscribers' sockets before it replies, so everything a publication delivers precedes the pong.

const psIOTimeout = 3 * time.Second

type respErr struct{ msg string }

type rconn struct {
	c        net.Conn
	br       *bufio.Reader
	attached bool // has sent (P)SUBSCRIBE: the server detached it into subscribed mode
	closed   bool
	seq      int
}

func psDial(addr string) (*rconn, error) {
	c, err := net.DialTimeout("tcp", addr, 2*time.Second)
	if err != nil {
		return nil, err
	}
	if tc, ok := c.(*net.TCPConn); ok {
		tc.SetNoDelay(true)
	}
	return &rconn{c: c, br: bufio.NewReaderSize(c, 1<<16)}, nil
}

func (r *rconn) send(args ...string) error {
	buf := make([]byte, 0, 64)
	buf = append(buf, '*')
	buf = strconv.AppendInt(buf, int64(len(args)), 10)
	buf = append(buf, '\r', '\n')
	for _, a := range args {
		buf = append(buf, '$')
		buf = strconv.AppendInt(buf, int64(len(a)), 10)
		buf = append(buf, '\r', '\n')
		buf = append(buf, a...)
		buf = append(buf, '\r', '\n')
	}
	r.c.SetWriteDeadline(time.Now().Add(psIOTimeout))
	_, err := r.c.Write(buf)
	return err
}

func (r *rconn) line() (string, error) {
	s, err := r.br.ReadString('\n')
	if err != nil {
		return "", err
	}
	if len(s) < 2 || s[len(s)-2] != '\r' {
		return "", fmt.Errorf("bad RESP line %q", s)
	}
	return s[:len(s)-2], nil
}

// read one RESP2 value: string (simple or bulk), int64, nil, []interface{}, respErr
func (r *rconn) read() (interface{}, error) {
	r.c.SetReadDeadline(time.Now().Add(psIOTimeout))
	return r.readValue()
}

func (r *rconn) readValue() (interface{}, error) {
	l, err := r.line()
	if err != nil {
		return nil, err
	}
	if l == "" {
		return nil, fmt.Errorf("empty RESP line")
	}
	switch l[0] {
	case '+':
		return l[1:], nil
	case '-':
		return respErr{l[1:]}, nil
	case ':':
		n, err := strconv.ParseInt(l[1:], 10, 64)
		return n, err
	case '$':
		n, err := strconv.Atoi(l[1:])
		if err != nil {
			return nil, err
		}
		if n < 0 {
			return nil, nil
		}
		b := make([]byte, n+2)
		if _, err := io.ReadFull(r.br, b); err != nil {
			return nil, err
		}
		return string(b[:n]), nil
	case '*':
		n, err := strconv.Atoi(l[1:])
		if err != nil {
			return nil, err
		}
		if n < 0 {
			return nil, nil
		}
		out := make([]interface{}, 0, n)
		for i := 0; i < n; i++ {
			v, err := r.readValue()
			if err != nil {
				return nil, err
			}
			out = append(out, v)
		}
		return out, nil
	}
	return nil, fmt.Errorf("bad RESP type byte %q", l[0])
}

func jsonable(v interface{}) interface{} {
	switch x := v.(type) {
	case respErr:
		return []interface{}{"err", x.msg}
	case []interface{}:
		out := make([]interface{}, len(x))
		for i, e := range x {
			out[i] = jsonable(e)
		}
		return out
	}
	return v
}

func isPong(v interface{}, tok string) bool {
	switch x := v.(type) {
	case string:
		return x == tok
	case []interface{}:
		if len(x) == 2 {
			a, _ := x[0].(string)
			b, _ := x[1].(string)
			return a == "pong" && b == tok
		}
	}
	return false
}

func (r *rconn) ping() (string, error) {
	r.seq++
	tok := "tok-" + strconv.Itoa(r.seq)
	return tok, r.send("PING", tok)
}

// collect reads until the pong that carries tok and returns everything that came before it.
func (r *rconn) collect(tok string) ([]interface{}, error) {
	var got []interface{}
	for {
		v, err := r.read()
		if err != nil {
			return got, err
		}
		if isPong(v, tok) {
			return got, nil
		}
		got = append(got, v)
	}
}

func pushKind(v interface{}) string {
	if a, ok := v.([]interface{}); ok && len(a) > 0 {
		if s, ok := a[0].(string); ok {
			return s
		}
	}
	if _, ok := v.(respErr); ok {
		return "err"
	}
	return ""
}

type psScenario struct {
	ID      int             `json:"id"`
	Members int             `json:"members"`
	Conns   []int           `json:"conns"`
	Ops     [][]interface{} `json:"ops"`
}

type psObs struct {
	R interface{}     `json:"r"`
	D [][]interface{} `json:"d"`
}

type psResult struct {
	ID      int             `json:"id"`
	Obs     []psObs         `json:"obs"`
	Glob    [][]interface{} `json:"glob"`
	Cleanup string          `json:"cleanup"`
	Err     string          `json:"err,omitempty"`
}

type psCluster struct {
	cl  *Cluster
	ctl []*rconn
}

func (pc *psCluster) control(m int) (*rconn, error) {
	if pc.ctl[m] != nil {
		return pc.ctl[m], nil
	}
	c, err := psDial(pc.cl.Members[m].Addr)
	if err != nil {
		return nil, err
	}
	pc.ctl[m] = c
	return c, nil
}

func (pc *psCluster) dropControl(m int) {
	if pc.ctl[m] != nil {
		pc.ctl[m].c.Close()
		pc.ctl[m] = nil
	}
}

func (pc *psCluster) conns(m int) int { return pc.cl.Members[m].DB.VerifPubSub().VerifConns() }

func (pc *psCluster) waitConns(m, want int) bool {
	deadline := time.Now().Add(psIOTimeout)
	for {
		if pc.conns(m) == want {
			return true
		}
		if time.Now().After(deadline) {
			return false
		}
		time.Sleep(200 * time.Microsecond)
	}
}

func (pc *psCluster) shutdown() {
	for m := range pc.ctl {
		pc.dropControl(m)
	}
	pc.cl.Shutdown()
}

func strArgs(op []interface{}, from int) []string {
	var out []string
	for _, a := range op[from:] {
		out = append(out, a.(string))
	}
	return out
}

func psNames(sc *psScenario) []string {
	set := map[string]bool{}
	for _, op := range sc.Ops {
		switch op[0].(string) {
		case "sub", "psub", "unsub", "punsub", "numsub", "channels":
			for _, s := range strArgs(op, 2) {
				set[s] = true
			}
		case "pub":
			set[op[2].(string)] = true
		case "cpub":
			for _, p := range op[1].([]interface{}) {
				set[p.([]interface{})[1].(string)] = true
			}
		}
	}
	var names []string
	for s := range set {
		names = append(names, s)
	}
	sort.Strings(names)
	return names
}

type psRun struct {
	pc    *psCluster
	sc    *psScenario
	conns []*rconn
}

// barrier flushes every open scripted connection; returns what each received (nil entry for a closed one).
func (r *psRun) barrier() ([][]interface{}, error) {
	toks := make([]string, len(r.conns))
	for i, c := range r.conns {
		if c.closed {
			continue
		}
		t, err := c.ping()
		if err != nil {
			return nil, fmt.Errorf("conn %d: %v", i, err)
		}
		toks[i] = t
	}
	out := make([][]interface{}, len(r.conns))
	for i, c := range r.conns {
		out[i] = []interface{}{}
		if c.closed {
			continue
		}
		got, err := c.collect(toks[i])
		if err != nil {
			return nil, fmt.Errorf("conn %d: %v", i, err)
		}
		for _, v := range got {
			out[i] = append(out[i], jsonable(v))
		}
	}
	return out, nil
}

func (r *psRun) step(op []interface{}) (psObs, error) {
	name := op[0].(string)
	var reply interface{}
	switch name {
	case "sub", "psub", "unsub", "punsub":
		ci := int(num(op[1]))
		c := r.conns[ci]
		if c.closed {
			reply = "closed"
			break
		}
		cmd := map[string]string{"sub": "SUBSCRIBE", "psub": "PSUBSCRIBE", "unsub": "UNSUBSCRIBE", "punsub": "PUNSUBSCRIBE"}[name]
		if err := c.send(append([]string{cmd}, strArgs(op, 2)...)...); err != nil {
			return psObs{}, err
		}
		if name == "sub" || name == "psub" {
			c.attached = true
		}
		// A command that names k channels is answered by exactly k confirmations (or one error). They are
		// awaited BEFORE the barrier: the first SUBSCRIBE of a connection is served by the mux handler, which
		// detaches the connection and keeps subscribing the remaining names while the new bgrunner may
		// already answer a pipelined PING, so a pong can overtake those confirmations.
		var replies, rest []interface{}
		want := len(op) - 2
		for want > 0 {
			v, err := c.read()
			if err != nil {
				return psObs{}, err
			}
			switch pushKind(v) {
			case "subscribe", "psubscribe", "unsubscribe", "punsubscribe":
				replies = append(replies, jsonable(v))
				want--
			case "err":
				replies = append(replies, jsonable(v))
				want = 0
			default:
				rest = append(rest, jsonable(v))
			}
		}
		d, err := r.barrier()
		if err != nil {
			return psObs{}, err
		}
		// split what connection ci received into the replies of this command and deliveries
		for _, v := range d[ci] {
			switch pushKind(v) {
			case "subscribe", "psubscribe", "unsubscribe", "punsubscribe", "err":
				replies = append(replies, v)
			default:
				rest = append(rest, v)
			}
		}
		if rest == nil {
			rest = []interface{}{}
		}
		d[ci] = rest
		if replies == nil {
			replies = []interface{}{}
		}
		return psObs{R: replies, D: d}, nil
	case "disc", "quit":
		ci := int(num(op[1]))
		c := r.conns[ci]
		if c.closed {
			reply = "closed"
			break
		}
		m := r.sc.Conns[ci]
		before := r.pc.conns(m)
		if name == "quit" {
			// the client says QUIT (answered +OK, then the server closes) instead of just closing its socket
			if err := c.send("QUIT"); err == nil {
				// +OK (or an error reply when the connection is not in subscribed mode), then the client goes away
				c.c.SetReadDeadline(time.Now().Add(500 * time.Millisecond))
				_, _ = c.read()
			}
		}
		c.c.Close()
		c.closed = true
		reply = "ok"
		if c.attached && !r.pc.waitConns(m, before-1) {
			reply = "timeout"
		}
	case "pub":
		m := int(num(op[1]))
		ctl, err := r.pc.control(m)
		if err != nil {
			return psObs{}, err
		}
		if err := ctl.send("PUBLISH", op[2].(string), op[3].(string)); err != nil {
			return psObs{}, err
		}
		v, err := ctl.read()
		if err != nil {
			r.pc.dropControl(m)
			return psObs{}, err
		}
		reply = jsonable(v)
	case "cpub":
		pubs := op[1].([]interface{})
		counts := make([][]interface{}, len(pubs))
		errs := make([]error, len(pubs))
		pcs := make([]*rconn, len(pubs))
		for j, p := range pubs {
			pp := p.([]interface{})
			c, err := psDial(r.pc.cl.Members[int(num(pp[0]))].Addr)
			if err != nil {
				return psObs{}, err
			}
			pcs[j] = c
		}
		start := make(chan struct{})
		var wg sync.WaitGroup
		for j, p := range pubs {
			pp := p.([]interface{})
			wg.Add(1)
			go func(j int, ch string, k int, tag string) {
				defer wg.Done()
				<-start
				counts[j] = []interface{}{}
				for n := 0; n < k; n++ {
					if err := pcs[j].send("PUBLISH", ch, tag+"."+strconv.Itoa(n)); err != nil {
						errs[j] = err
						return
					}
					v, err := pcs[j].read()
					if err != nil {
						errs[j] = err
						return
					}
					counts[j] = append(counts[j], jsonable(v))
				}
			}(j, pp[1].(string), int(num(pp[2])), pp[3].(string))
		}
		close(start)
		wg.Wait()
		for j := range pcs {
			pcs[j].c.Close()
			if errs[j] != nil {
				return psObs{}, errs[j]
			}
		}
		reply = counts
	case "channels", "numsub", "numpat":
		m := int(num(op[1]))
		ctl, err := r.pc.control(m)
		if err != nil {
			return psObs{}, err
		}
		args := []string{"PUBSUB", map[string]string{"channels": "CHANNELS", "numsub": "NUMSUB", "numpat": "NUMPAT"}[name]}
		args = append(args, strArgs(op, 2)...)
		if err := ctl.send(args...); err != nil {
			return psObs{}, err
		}
		v, err := ctl.read()
		if err != nil {
			r.pc.dropControl(m)
			return psObs{}, err
		}
		reply = jsonable(v)
	default:
		return psObs{}, fmt.Errorf("unknown op %q", name)
	}
	d, err := r.barrier()
	if err != nil {
		return psObs{}, err
	}
	return psObs{R: reply, D: d}, nil
}

// runScenario returns the result and whether the cluster is still clean (false = restart it).
func runPubSubScenario(pc *psCluster, sc *psScenario) (psResult, bool) {
	res := psResult{ID: sc.ID, Obs: []psObs{}, Glob: [][]interface{}{}, Cleanup: "ok"}
	names := psNames(sc)
	for _, p := range names {
		for _, s := range names {
			res.Glob = append(res.Glob, []interface{}{p, s, match.Match(s, p)})
		}
	}
	run := &psRun{pc: pc, sc: sc}
	clean := true
	for i, m := range sc.Conns {
		c, err := psDial(pc.cl.Members[m].Addr)
		if err != nil {
			res.Err = fmt.Sprintf("dial conn %d: %v", i, err)
			clean = false
			break
		}
		run.conns = append(run.conns, c)
	}
	if res.Err == "" {
		for i, op := range sc.Ops {
			ob, err := run.step(op)
			if err != nil {
				res.Obs = append(res.Obs, psObs{R: []interface{}{"hang", err.Error()}, D: [][]interface{}{}})
				res.Err = fmt.Sprintf("op %d: %v", i, err)
				clean = false
				break
			}
			res.Obs = append(res.Obs, ob)
		}
	}
	for _, c := range run.conns {
		if !c.closed {
			c.c.Close()
			c.closed = true
		}
	}
	for m := range pc.cl.Members {
		if !pc.waitConns(m, 0) {
			res.Cleanup = "timeout"
			clean = false
		}
	}
	return res, clean
}

func init() {
	register("pubsub", func(args []string, in *bufio.Reader, out *bufio.Writer) error {
		clusters := map[int]*psCluster{}
		defer func() {
			for _, pc := range clusters {
				pc.shutdown()
			}
		}()
		get := func(n int) (*psCluster, error) {
			if pc, ok := clusters[n]; ok {
				return pc, nil
			}
			cl, err := StartCluster(ClusterOpts{Members: n, Replicas: 1, Partitions: 7})
			if err != nil {
				return nil, err
			}
			pc := &psCluster{cl: cl, ctl: make([]*rconn, n)}
			clusters[n] = pc
			return pc, nil
		}
		dec := json.NewDecoder(in)
		enc := json.NewEncoder(out)
		for {
			var sc psScenario
			if err := dec.Decode(&sc); err == io.EOF {
				return nil
			} else if err != nil {
				return err
			}
			if sc.Members < 1 || sc.Members > 3 {
				return fmt.Errorf("scenario %d: members must be 1..3", sc.ID)
			}
			for _, m := range sc.Conns {
				if m < 0 || m >= sc.Members {
					return fmt.Errorf("scenario %d: connection attached to member %d of %d", sc.ID, m, sc.Members)
				}
			}
			pc, err := get(sc.Members)
			if err != nil {
				return err
			}
			res, clean := runPubSubScenario(pc, &sc)
			if err := enc.Encode(res); err != nil {
				return err
			}
			out.Flush()
			if !clean {
				fmt.Fprintf(os.Stderr, "pubsub: scenario %d left the cluster unclean (%s %s), restarting it\n", sc.ID, res.Err, res.Cleanup)
				pc.shutdown()
				delete(clusters, sc.Members)
			}
		}
	})
}
