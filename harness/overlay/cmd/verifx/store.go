//go:build verif

package main

import (
	"bufio"
	"encoding/hex"
	"encoding/json"
	"fmt"
	"os"
	"sort"
	"time"

	"github.com/olric-data/olric/internal/kvstore"
	"github.com/olric-data/olric/internal/kvstore/entry"
	"github.com/olric-data/olric/pkg/storage"
)

// store: run storage-engine scenarios (storage.Engine over the real kvstore) and print what each
// operation returned. One JSON scenario per input line, one JSON result per output line.

type storeScenario struct {
	ID      int               `json:"id"`
	Size    uint64            `json:"size"`
	Fork    bool              `json:"fork"`
	ParentSize uint64         `json:"parent_size"` // with fork: the table size of the engine instance the store is forked from (0 = the same)
	Expired bool              `json:"expired"`
	Ops     [][]interface{}   `json:"ops"`
}

type storeResult struct {
	ID  int             `json:"id"`
	Obs [][]interface{} `json:"obs"`
	// Invariant violations observed white-box (impl-only predicate), empty when fine.
	Inv []string `json:"inv,omitempty"`
}

func errCode(err error) string {
	switch {
	case err == nil:
		return "nil"
	case err == storage.ErrKeyTooLarge:
		return "keytoolarge"
	case err == storage.ErrEntryTooLarge:
		return "entrytoolarge"
	case err == storage.ErrKeyNotFound:
		return "notfound"
	default:
		return "other:" + err.Error()
	}
}

func num(x interface{}) int64 {
	switch v := x.(type) {
	case float64:
		return int64(v)
	case json.Number:
		n, _ := v.Int64()
		return n
	case string:
		var n int64
		fmt.Sscan(v, &n)
		return n
	}
	panic(fmt.Sprintf("bad number %v", x))
}

func unum(x interface{}) uint64 {
	switch v := x.(type) {
	case json.Number:
		var n uint64
		fmt.Sscan(string(v), &n)
		return n
	case string:
		var n uint64
		fmt.Sscan(v, &n)
		return n
	case float64:
		return uint64(v)
	}
	panic(fmt.Sprintf("bad number %v", x))
}

func unhex(x interface{}) []byte {
	b, err := hex.DecodeString(x.(string))
	if err != nil {
		panic(err)
	}
	return b
}

func entryView(e storage.Entry) []interface{} {
	return []interface{}{hex.EncodeToString([]byte(e.Key())), hex.EncodeToString(e.Value()), e.TTL(), e.Timestamp()}
}

func newStore(sc *storeScenario) (storage.Engine, error) {
	c := storage.NewConfig(nil)
	c.Add("tableSize", sc.Size)
	if sc.Expired {
		c.Add("maxIdleTableTimeout", time.Duration(0))
	} else {
		c.Add("maxIdleTableTimeout", 24*time.Hour)
	}
	if sc.Fork && sc.ParentSize != 0 {
		// what dmap.newFragment does when the engine instance (config.Engine.Implementation) was built with another table
		// size than the DMap's engine configuration: Fork(the DMap's configuration) on that instance
		pc := storage.NewConfig(nil)
		pc.Add("tableSize", sc.ParentSize)
		pc.Add("maxIdleTableTimeout", 24*time.Hour)
		parent, err := kvstore.New(pc)
		if err != nil {
			return nil, err
		}
		return parent.Fork(c)
	}
	k, err := kvstore.New(c)
	if err != nil {
		return nil, err
	}
	if sc.Fork {
		return k.Fork(nil)
	}
	return k, nil
}

// withWatchdog runs f; if it does not return within d the scenario is reported as hung and the process
// exits (the runaway goroutine cannot be stopped).
func withWatchdog(d time.Duration, f func()) (hung bool, panicked interface{}) {
	done := make(chan interface{}, 1)
	go func() {
		defer func() {
			done <- recover()
		}()
		f()
	}()
	select {
	case p := <-done:
		return false, p
	case <-time.After(d):
		return true, nil
	}
}

func placement(e storage.Engine) map[uint64]kvstore.VerifPlace {
	k, ok := e.(*kvstore.KVStore)
	if !ok {
		return nil
	}
	return k.VerifPlacement()
}

// movedOrder reconstructs the Go-map iteration order compaction used: the hkeys whose table changed, in
// the order in which they were appended to their new tables.
func movedOrder(before, after map[uint64]kvstore.VerifPlace) []string {
	type mv struct {
		h uint64
		p kvstore.VerifPlace
	}
	var l []mv
	for h, a := range after {
		b, ok := before[h]
		if ok && b.Coefficient != a.Coefficient {
			l = append(l, mv{h, a})
		}
	}
	sort.Slice(l, func(i, j int) bool {
		if l[i].p.Coefficient != l[j].p.Coefficient {
			return l[i].p.Coefficient < l[j].p.Coefficient
		}
		return l[i].p.Offset < l[j].p.Offset
	})
	out := []string{}
	for _, x := range l {
		out = append(out, fmt.Sprint(x.h))
	}
	return out
}

func checkStoreInvariants(name string, e storage.Engine) []string {
	k, ok := e.(*kvstore.KVStore)
	if !ok {
		return nil
	}
	var out []string
	for i, t := range k.VerifTables() {
		rec := t.State == 3
		if !rec && !t.InByCoef {
			out = append(out, fmt.Sprintf("%s: live table #%d (coef %d) is not registered under its coefficient", name, i, t.Coefficient))
		}
		if rec && (t.Inuse != 0 || t.Garbage != 0 || t.Length != 0) {
			out = append(out, fmt.Sprintf("%s: recycled table #%d not empty", name, i))
		}
	}
	return out
}

func runStoreScenario(sc *storeScenario, out *bufio.Writer) (hung bool) {
	res := storeResult{ID: sc.ID}
	a, err := newStore(sc)
	if err != nil {
		panic(err)
	}
	b, err := newStore(sc)
	if err != nil {
		panic(err)
	}
	pageCursor := map[string]uint64{}
	pick := func(x interface{}) storage.Engine {
		if x.(string) == "b" {
			return b
		}
		return a
	}
	for _, op := range sc.Ops {
		var ob []interface{}
		name := op[0].(string)
		h, p := withWatchdog(2*time.Second, func() {
			switch name {
			case "put", "putraw":
				s := pick(op[1])
				e := entry.New()
				e.SetKey(string(unhex(op[3])))
				e.SetValue(unhex(op[4]))
				e.SetTTL(num(op[5]))
				e.SetTimestamp(num(op[6]))
				var err error
				if name == "put" {
					err = s.Put(unum(op[2]), e)
				} else {
					err = s.PutRaw(unum(op[2]), e.Encode())
				}
				ob = []interface{}{"code", errCode(err)}
			case "get":
				e, err := pick(op[1]).Get(unum(op[2]))
				if err != nil {
					ob = []interface{}{"entry", errCode(err)}
				} else {
					ob = append([]interface{}{"entry", "nil"}, entryView(e)...)
				}
			case "getraw":
				raw, err := pick(op[1]).GetRaw(unum(op[2]))
				if err != nil {
					ob = []interface{}{"entry", errCode(err)}
				} else {
					e := entry.New()
					e.Decode(raw)
					ob = append([]interface{}{"entry", "nil"}, entryView(e)...)
				}
			case "getkey":
				k, err := pick(op[1]).GetKey(unum(op[2]))
				if err != nil {
					ob = []interface{}{"key", errCode(err)}
				} else {
					ob = []interface{}{"key", "nil", hex.EncodeToString([]byte(k))}
				}
			case "getttl":
				t, err := pick(op[1]).GetTTL(unum(op[2]))
				if err != nil {
					ob = []interface{}{"ttl", errCode(err)}
				} else {
					ob = []interface{}{"ttl", "nil", t}
				}
			case "check":
				ob = []interface{}{"bool", pick(op[1]).Check(unum(op[2]))}
			case "del":
				err := pick(op[1]).Delete(unum(op[2]))
				ob = []interface{}{"code", errCode(err)}
			case "updttl":
				e := entry.New()
				e.SetTTL(num(op[3]))
				e.SetTimestamp(num(op[4]))
				err := pick(op[1]).UpdateTTL(unum(op[2]), e)
				ob = []interface{}{"code", errCode(err)}
			case "stats":
				s := pick(op[1]).Stats()
				ob = []interface{}{"stats", s.Allocated, s.Inuse, s.Garbage, s.Length, s.NumTables}
			case "len":
				s := pick(op[1]).Stats()
				ob = []interface{}{"len", s.Length, s.Inuse}
			case "range":
				type hv struct {
					h uint64
					v []interface{}
				}
				var l []hv
				pick(op[1]).Range(func(hk uint64, e storage.Entry) bool {
					l = append(l, hv{hk, entryView(e)})
					return true
				})
				sort.SliceStable(l, func(i, j int) bool { return l[i].h < l[j].h })
				var items []interface{}
				for _, x := range l {
					items = append(items, append([]interface{}{fmt.Sprint(x.h)}, x.v...))
				}
				// RangeHKey must visit the same hkeys
				var hs []uint64
				pick(op[1]).RangeHKey(func(hk uint64) bool { hs = append(hs, hk); return true })
				sort.Slice(hs, func(i, j int) bool { return hs[i] < hs[j] })
				same := len(hs) == len(l)
				for i := range hs {
					if same && hs[i] != l[i].h {
						same = false
					}
				}
				if !same {
					res.Inv = append(res.Inv, "Range and RangeHKey visit different hkeys")
				}
				ob = []interface{}{"range", items}
			case "compact":
				s := pick(op[1])
				before := placement(s)
				done, err := s.Compaction()
				if err != nil {
					ob = []interface{}{"done", "err:" + err.Error()}
				} else {
					ob = []interface{}{"done", done, movedOrder(before, placement(s))}
				}
			case "compactall":
				s := pick(op[1])
				n := 0
				fin := false
				ords := [][]string{}
				for n < 400 {
					before := placement(s)
					done, err := s.Compaction()
					ords = append(ords, movedOrder(before, placement(s)))
					n++
					if err != nil {
						break
					}
					if done {
						fin = true
						break
					}
				}
				if fin {
					ob = []interface{}{"steps", n, ords}
				} else {
					ob = []interface{}{"steps", nil, ords}
				}
			case "scanpage":
				// ONE page of an iteration that is kept open across other operations: ["scanpage", which, count]; the cursor
				// of store `which` lives in the harness ("scanreset" starts over). Observation: ["page", cursor_in, cursor_out, keys]
				s := pick(op[1])
				w := op[1].(string)
				var keys []string
				cin := pageCursor[w]
				cout, err := s.Scan(cin, int(num(op[2])), func(e storage.Entry) bool {
					keys = append(keys, hex.EncodeToString([]byte(e.Key())))
					return true
				})
				if err != nil {
					ob = []interface{}{"page", cin, nil, err.Error()}
				} else {
					pageCursor[w] = cout
					ob = []interface{}{"page", cin, cout, keys}
				}
			case "scanreset":
				pageCursor[op[1].(string)] = 0
				ob = []interface{}{"reset"}
			case "scanall":
				s := pick(op[1])
				count := int(num(op[2]))
				pat := int(num(op[3]))
				expr := ""
				if pat > 256 {
					expr = fmt.Sprintf("\\x%02x", pat-257) // not anchored: the byte anywhere in the key
				} else if pat > 0 {
					expr = fmt.Sprintf("^\\x%02x", pat-1)
				}
				var keys []string
				var cursor uint64
				pages := 0
				fin := false
				for pages < 400 {
					var err error
					f := func(e storage.Entry) bool { keys = append(keys, hex.EncodeToString([]byte(e.Key()))); return true }
					if expr == "" {
						cursor, err = s.Scan(cursor, count, f)
					} else {
						cursor, err = s.ScanRegexMatch(cursor, expr, count, f)
					}
					pages++
					if err != nil {
						break
					}
					if cursor == 0 {
						fin = true
						break
					}
				}
				if fin {
					sort.Strings(keys)
					if keys == nil {
						keys = []string{}
					}
					ob = []interface{}{"keys", keys, pages}
				} else {
					ob = []interface{}{"keys", nil, pages}
				}
			case "xfer":
				ti := a.TransferIterator()
				if !ti.Next() {
					ob = []interface{}{"xfer", false}
					return
				}
				data, idx, err := ti.Export()
				if err != nil {
					ob = []interface{}{"xfer", false}
					return
				}
				var moved []string
				err = b.Import(data, func(hk uint64, e storage.Entry) error {
					moved = append(moved, fmt.Sprint(hk))
					return b.Put(hk, e)
				})
				order := append([]string{}, moved...)
				sort.Strings(moved)
				if err != nil {
					ob = []interface{}{"xfer", "err:" + err.Error()}
					return
				}
				if err := ti.Drop(idx); err != nil {
					ob = []interface{}{"xfer", "err:" + err.Error()}
					return
				}
				if moved == nil {
					moved = []string{}
				}
				ob = []interface{}{"xfer", true, moved, order}
			default:
				panic("unknown op " + name)
			}
		})
		if h {
			res.Obs = append(res.Obs, []interface{}{"hang"})
			enc, _ := json.Marshal(res)
			out.Write(enc)
			out.WriteString("\n")
			return true
		}
		if p != nil {
			res.Obs = append(res.Obs, []interface{}{"panic", fmt.Sprint(p)})
			break
		}
		res.Obs = append(res.Obs, ob)
		res.Inv = append(res.Inv, checkStoreInvariants("a", a)...)
		res.Inv = append(res.Inv, checkStoreInvariants("b", b)...)
		if len(res.Inv) > 3 {
			res.Inv = res.Inv[:3]
		}
	}
	enc, _ := json.Marshal(res)
	out.Write(enc)
	out.WriteString("\n")
	return false
}

func init() {
	register("store", func(args []string, in *bufio.Reader, out *bufio.Writer) error {
		dec := json.NewDecoder(in)
		dec.UseNumber()
		for dec.More() {
			var sc storeScenario
			if err := dec.Decode(&sc); err != nil {
				return err
			}
			if runStoreScenario(&sc, out) {
				// a runaway goroutine is still allocating: leave now; the caller restarts us after this id
				out.Flush()
				os.Exit(7)
			}
		}
		return nil
	})
}
