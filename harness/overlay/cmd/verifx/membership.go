//go:build verif

package main

import (
	"bufio"
	"context"
	"encoding/json"
	"fmt"
	"time"

	"github.com/olric-data/olric"
)

// membership: DMap scenarios with joins and stops. One cluster PER scenario. Input: one JSON object per line
//   {"id":..,"cluster":{ClusterOpts},"ops":[dOp | {"op":"stop","m":i,"mode":"graceful|abrupt"} | {"op":"join"} |
//            {"op":"waitstable","ms":timeout} | {"op":"sync"} | {"op":"routing"}]}

type mScenario struct {
	ID      int         `json:"id"`
	Cluster ClusterOpts `json:"cluster"`
	Ops     []dOp       `json:"ops"`
}

func (cl *Cluster) AbruptStop(i int) error {
	m := cl.Members[i]
	if !m.Alive {
		return nil
	}
	m.Alive = false
	if c, ok := cl.raw[i]; ok {
		c.Close()
		delete(cl.raw, i)
	}
	if cl.cc != nil {
		cl.cc.Close(context.Background())
		cl.cc = nil
	}
	// the member vanishes: no leave broadcast, its RESP listener goes away
	_ = m.DB.VerifRT().Discovery().VerifAbruptStop()
	ctx, cancel := context.WithTimeout(context.Background(), 3*time.Second)
	defer cancel()
	_ = m.DB.VerifServer().Shutdown(ctx)
	// stop the background workers of the dead member (Olric.Shutdown cannot be used: memberlist.Leave
	// panics after memberlist.Shutdown)
	go func() {
		ctx2, cancel2 := context.WithTimeout(context.Background(), 5*time.Second)
		defer cancel2()
		_ = m.DB.VerifDMap().Shutdown(ctx2)
		_ = m.DB.VerifBalancer().Shutdown(ctx2)
	}()
	return nil
}

func (cl *Cluster) routingDump() []map[string]interface{} {
	var out []map[string]interface{}
	for i, m := range cl.Members {
		if !m.Alive {
			continue
		}
		out = append(out, map[string]interface{}{"m": i, "sig": m.RoutingSignature(), "members": m.DB.VerifRT().Discovery().NumMembers(),
			"coordinator": m.DB.VerifRT().Discovery().IsCoordinator()})
	}
	return out
}

func init() {
	register("membership", func(args []string, in *bufio.Reader, out *bufio.Writer) error {
		dec := json.NewDecoder(in)
		for dec.More() {
			var sc mScenario
			if err := dec.Decode(&sc); err != nil {
				return err
			}
			res := dResult{ID: sc.ID}
			sc.Cluster.FastGossip = true
			cl, err := StartCluster(sc.Cluster)
			if err != nil {
				res.Env = map[string]interface{}{"error": "cluster did not start: " + err.Error()}
				enc, _ := json.Marshal(res)
				out.Write(enc)
				out.WriteString("\n")
				out.Flush()
				continue
			}
			r := &dRunner{cl: cl, locks: map[string]olric.LockContext{}, rawTk: map[string][2]string{}, rawTv: map[string]string{}}
			for i := range sc.Ops {
				op := &sc.Ops[i]
				var ob map[string]interface{}
				switch op.Op {
				case "stop":
					t0 := time.Now()
					var err error
					if op.C == "abrupt" {
						err = cl.AbruptStop(op.M)
					} else {
						err = cl.StopMember(op.M)
					}
					ob = map[string]interface{}{"r": "ok", "t0": t0.UnixMilli(), "t1": time.Now().UnixMilli()}
					if err != nil {
						ob["r"] = "other:" + err.Error()
					}
				case "join":
					t0 := time.Now()
					_, err := cl.AddMember()
					ob = map[string]interface{}{"r": "ok", "t0": t0.UnixMilli(), "t1": time.Now().UnixMilli(), "index": len(cl.Members) - 1}
					if err != nil {
						ob["r"] = "other:" + err.Error()
					}
				case "waitstable":
					t0 := time.Now()
					d := time.Duration(op.Ms) * time.Millisecond
					if d == 0 {
						d = 20 * time.Second
					}
					err := cl.WaitStable(d)
					// cluster clients cache the routing table (refreshed once a minute): the reads that follow use a
					// fresh one
					if cl.cc != nil {
						cl.cc.Close(context.Background())
						cl.cc = nil
					}
					ob = map[string]interface{}{"r": "ok", "t0": t0.UnixMilli(), "t1": time.Now().UnixMilli()}
					if err != nil {
						ob["r"] = "unstable:" + err.Error()
					}
				case "push":
					t0 := time.Now()
					if c := cl.Coordinator(); c != nil {
						c.DB.VerifRT().UpdateEagerly()
					}
					ob = map[string]interface{}{"r": "ok", "t0": t0.UnixMilli(), "t1": time.Now().UnixMilli()}
				case "balance":
					// one balancer run on member M: at most one table of every misplaced fragment is moved
					t0 := time.Now()
					if op.M < len(cl.Members) && cl.Members[op.M].Alive {
						cl.Members[op.M].DB.VerifBalancer().BalanceEagerly()
					}
					ob = map[string]interface{}{"r": "ok", "t0": t0.UnixMilli(), "t1": time.Now().UnixMilli()}
				case "sync":
					t0 := time.Now()
					cl.Sync()
					ob = map[string]interface{}{"r": "ok", "t0": t0.UnixMilli(), "t1": time.Now().UnixMilli()}
				case "routing":
					ob = map[string]interface{}{"r": "ok", "routing": cl.routingDump(), "t0": time.Now().UnixMilli(), "t1": time.Now().UnixMilli()}
				default:
					ob = r.runOp(op)
				}
				res.Obs = append(res.Obs, ob)
			}
			cl.Shutdown()
			enc, _ := json.Marshal(res)
			out.Write(enc)
			out.WriteString("\n")
			out.Flush()
			_ = fmt.Sprint
		}
		return nil
	})
}
