//go:build verif

package main

import (
	"bufio"
	"context"
	"encoding/hex"
	"encoding/json"
	"errors"
	"fmt"
	"io"
	"log"
	"github.com/olric-data/olric/internal/cluster/partitions"
	"github.com/olric-data/olric/internal/verifhook"
	"sync"
	"sync/atomic"
	"time"

	"github.com/olric-data/olric"
)

// membership: DMap scenarios with joins and stops. One cluster PER scenario. Input: one JSON object per line
//   {"id":..,"cluster":{ClusterOpts},"ops":[dOp | {"op":"stop","m":i,"mode":"graceful|abrupt"} | {"op":"join"} |
//            {"op":"waitstable","ms":timeout} | {"op":"sync"} | {"op":"routing"}]}

type mScenario struct {
	ID      int         `json:"id"`
	Cluster ClusterOpts `json:"cluster"`
	Ops     []dOp       `json:"ops"`
}

func (cl *Cluster) AbruptStop(i int) error {
	m := cl.Members[i]
	if !m.Alive {
		return nil
	}
	m.Alive = false
	if c, ok := cl.raw[i]; ok {
		c.Close()
		delete(cl.raw, i)
	}
	if cl.cc != nil {
		cl.cc.Close(context.Background())
		cl.cc = nil
	}
	// the member vanishes: no leave broadcast, its RESP listener goes away
	_ = m.DB.VerifRT().Discovery().VerifAbruptStop()
	ctx, cancel := context.WithTimeout(context.Background(), 3*time.Second)
	defer cancel()
	_ = m.DB.VerifServer().Shutdown(ctx)
	// stop the background workers of the dead member (Olric.Shutdown cannot be used: memberlist.Leave
	// panics after memberlist.Shutdown)
	go func() {
		ctx2, cancel2 := context.WithTimeout(context.Background(), 5*time.Second)
		defer cancel2()
		_ = m.DB.VerifDMap().Shutdown(ctx2)
		_ = m.DB.VerifBalancer().Shutdown(ctx2)
	}()
	return nil
}

// fail points (internal/verifhook, build tag verif): one armed point per harness process
type armSpec struct {
	point, victim string
	nth           int
	cl            *Cluster
	// victim "pause": the goroutine that reaches the point signals `reached` and waits for `release`
	reached, release chan struct{}
}

var armed struct {
	sync.Mutex
	spec  *armSpec
	fired map[string]interface{}
}

var errCrashed = errors.New("verif: the member stopped at this fail point")

func init() {
	verifhook.Set(func(point, who string, part uint64) error {
		armed.Lock()
		a := armed.spec
		if a == nil || a.point != point {
			armed.Unlock()
			return nil
		}
		a.nth--
		if a.nth > 0 {
			armed.Unlock()
			return nil
		}
		armed.spec = nil
		if a.victim == "pause" {
			armed.fired = map[string]interface{}{"point": point, "who": a.cl.indexOf(who), "part": part}
			armed.Unlock()
			close(a.reached)
			<-a.release
			return nil
		}
		cl := a.cl
		self := cl.indexOf(who)
		victim := self
		if a.victim == "receiver" && self >= 0 {
			// the current primary owner of the partition, as the member at the fail point sees it
			victim = cl.indexOf(cl.Members[self].DB.VerifPrimary().PartitionByID(part).Owner().Name)
		}
		armed.fired = map[string]interface{}{"point": point, "who": self, "part": part, "victim": victim}
		armed.Unlock()
		if victim < 0 {
			return nil
		}
		_ = cl.AbruptStop(victim)
		if victim == self {
			return errCrashed
		}
		return nil
	})
}

func (cl *Cluster) routingDump() []map[string]interface{} {
	var out []map[string]interface{}
	for i, m := range cl.Members {
		if !m.Alive {
			continue
		}
		out = append(out, map[string]interface{}{"m": i, "sig": m.RoutingSignature(), "members": m.DB.VerifRT().Discovery().NumMembers(),
			"coordinator": m.DB.VerifRT().Discovery().IsCoordinator()})
	}
	return out
}

func init() {
	register("membership", func(args []string, in *bufio.Reader, out *bufio.Writer) error {
		dec := json.NewDecoder(in)
		for dec.More() {
			var sc mScenario
			if err := dec.Decode(&sc); err != nil {
				return err
			}
			res := dResult{ID: sc.ID}
			sc.Cluster.FastGossip = true
			cl, err := StartCluster(sc.Cluster)
			if err != nil {
				res.Env = map[string]interface{}{"error": "cluster did not start: " + err.Error()}
				enc, _ := json.Marshal(res)
				out.Write(enc)
				out.WriteString("\n")
				out.Flush()
				continue
			}
			r := &dRunner{cl: cl, locks: map[string]olric.LockContext{}, rawTk: map[string][2]string{}, rawTv: map[string]string{}}
			armed.Lock()
			armed.spec, armed.fired = nil, nil
			armed.Unlock()
			// flap watch: while the scenario believes the membership is settled, no live member may see fewer members
			// than are alive. On a busy machine memberlist suspects live members; a scenario in which that happened is
			// not a statement about the property (the environment changed the membership, not the scenario).
			var settled, flapped int32 = 1, 0
			var flapNote atomic.Value
			stopWatch := make(chan struct{})
			go func() {
				for {
					select {
					case <-stopWatch:
						return
					case <-time.After(15 * time.Millisecond):
					}
					if atomic.LoadInt32(&settled) == 0 {
						continue
					}
					cl.mu.Lock()
					live := cl.Live()
					cl.mu.Unlock()
					for _, m := range live {
						if n := m.DB.VerifRT().Discovery().NumMembers(); n < len(live) && atomic.LoadInt32(&settled) == 1 {
							atomic.StoreInt32(&flapped, 1)
							flapNote.Store(fmt.Sprintf("member %s saw %d members while %d were alive", m.Addr, n, len(live)))
						}
					}
				}
			}()
			for i := range sc.Ops {
				op := &sc.Ops[i]
				var ob map[string]interface{}
				switch op.Op {
				case "join", "stop", "arm", "colocate":
					atomic.StoreInt32(&settled, 0)
				}
				switch op.Op {
				case "stop":
					t0 := time.Now()
					var err error
					if op.C == "abrupt" {
						err = cl.AbruptStop(op.M)
					} else {
						err = cl.StopMember(op.M)
					}
					ob = map[string]interface{}{"r": "ok", "t0": t0.UnixMilli(), "t1": time.Now().UnixMilli()}
					if err != nil {
						ob["r"] = "other:" + err.Error()
					}
				case "join":
					t0 := time.Now()
					_, err := cl.AddMember()
					ob = map[string]interface{}{"r": "ok", "t0": t0.UnixMilli(), "t1": time.Now().UnixMilli(), "index": len(cl.Members) - 1}
					if err != nil {
						ob["r"] = "other:" + err.Error()
					}
				case "waitstable":
					t0 := time.Now()
					d := time.Duration(op.Ms) * time.Millisecond
					if d == 0 {
						d = 20 * time.Second
					}
					err := cl.WaitStable(d)
					// cluster clients cache the routing table (refreshed once a minute): the reads that follow use a
					// fresh one ("c":"keepcc" keeps the client that was created before the membership change)
					if cl.cc != nil && op.C != "keepcc" {
						cl.cc.Close(context.Background())
						cl.cc = nil
					}
					ob = map[string]interface{}{"r": "ok", "t0": t0.UnixMilli(), "t1": time.Now().UnixMilli()}
					if err != nil {
						ob["r"] = "unstable:" + err.Error()
					}
				case "waitsame":
					// every live member holds the same routing table (no balancer is run; the coordinator pushes again when the
					// tables still differ after 300 ms: a push that was overtaken by an older one leaves a member behind)
					t0 := time.Now()
					deadline := time.Now().Add(15 * time.Second)
					same := false
					last := time.Now()
					for time.Now().Before(deadline) {
						live := cl.Live()
						same = true
						for _, m := range live {
							if m.RoutingSignature() != live[0].RoutingSignature() {
								same = false
							}
						}
						if same {
							break
						}
						if time.Since(last) > 300*time.Millisecond {
							if c := cl.Coordinator(); c != nil {
								c.DB.VerifRT().UpdateEagerly()
							}
							last = time.Now()
						}
						time.Sleep(20 * time.Millisecond)
					}
					ob = map[string]interface{}{"r": "ok", "t0": t0.UnixMilli(), "t1": time.Now().UnixMilli()}
					if !same {
						ob["r"] = "unstable:routing tables differ"
					}
				case "waitpassive":
					// like waitstable, but the harness only watches: nothing pushes the routing table or runs a balancer
					// except the members' own timers (RoutingTablePushInterval, TriggerBalancerInterval)
					t0 := time.Now()
					d := time.Duration(op.Ms) * time.Millisecond
					if d == 0 {
						d = 20 * time.Second
					}
					deadline := time.Now().Add(d)
					why := ""
					okp := false
					for time.Now().Before(deadline) {
						var w string
						if okp, w = cl.stableNow(); okp {
							break
						}
						why = w
						time.Sleep(50 * time.Millisecond)
					}
					if cl.cc != nil {
						cl.cc.Close(context.Background())
						cl.cc = nil
					}
					ob = map[string]interface{}{"r": "ok", "t0": t0.UnixMilli(), "t1": time.Now().UnixMilli()}
					if !okp {
						ob["r"] = "unstable:" + why
					}
				case "push":
					t0 := time.Now()
					if c := cl.Coordinator(); c != nil {
						c.DB.VerifRT().UpdateEagerly()
					}
					ob = map[string]interface{}{"r": "ok", "t0": t0.UnixMilli(), "t1": time.Now().UnixMilli()}
				case "balance":
					// one balancer run on member M: at most one table of every misplaced fragment is moved
					t0 := time.Now()
					if op.M < len(cl.Members) && cl.Members[op.M].Alive {
						cl.Members[op.M].DB.VerifBalancer().BalanceEagerly()
					}
					ob = map[string]interface{}{"r": "ok", "t0": t0.UnixMilli(), "t1": time.Now().UnixMilli()}
				case "arm":
					// {"op":"arm","c":"<point>","tok":"self|receiver","m":nth}: the nth time a member reaches the fail point, the
					// victim (the member itself, or the current primary owner of the partition) is stopped abruptly there
					armed.Lock()
					armed.spec = &armSpec{point: op.C, victim: op.Tok, nth: op.M, cl: cl}
					armed.fired = nil
					armed.Unlock()
					ob = map[string]interface{}{"r": "ok", "t0": time.Now().UnixMilli(), "t1": time.Now().UnixMilli()}
				case "colocate":
					// D40 witness: find a partition whose (new) primary owner X still is a backup owner of the same partition
					// and whose previous owner A still holds primary data; run A's balancer (the primary fragment moves
					// onto X, A drops it), then stop X abruptly before X's own balancer has moved its backup fragment on
					t0 := time.Now()
					ob = map[string]interface{}{"r": "ok", "found": false}
					view := cl.Live()[0]
					has := func(i int, kind partitions.Kind, p uint64) bool {
						return i >= 0 && cl.Members[i].Alive && len(cl.Members[i].DB.VerifDMap().VerifFragmentKeys(kind, op.D, p)) > 0
					}
					for p := uint64(0); p < view.Cfg.PartitionCount && ob["found"] == false; p++ {
						ow := view.DB.VerifPrimary().PartitionByID(p).Owners()
						bw := view.DB.VerifBackup().PartitionByID(p).Owners()
						a, x, form := -1, -1, ""
						// (i) the new primary owner still holds the backup copy; its predecessor hands the primary fragment over
						if len(ow) >= 2 {
							x0 := cl.indexOf(ow[len(ow)-1].Name)
							a0 := cl.indexOf(ow[len(ow)-2].Name)
							if has(a0, partitions.PRIMARY, p) && has(x0, partitions.BACKUP, p) {
								a, x, form = a0, x0, "primary-onto-backup-holder"
							}
						}
						// (ii) the new backup owner still holds primary-kind data; the old backup owner hands the backup fragment over
						if a < 0 && len(bw) >= 2 {
							x0 := cl.indexOf(bw[len(bw)-1].Name)
							a0 := cl.indexOf(bw[len(bw)-2].Name)
							if has(a0, partitions.BACKUP, p) && has(x0, partitions.PRIMARY, p) {
								a, x, form = a0, x0, "backup-onto-primary-holder"
							}
						}
						if a < 0 || x < 0 || a == x {
							continue
						}
						cl.Members[a].DB.VerifBalancer().BalanceEagerly()
						_ = cl.AbruptStop(x)
						ob["found"], ob["part"], ob["victim"], ob["sender"], ob["form"] = true, p, x, a, form
						armed.Lock()
						armed.fired = map[string]interface{}{"point": "colocate", "who": a, "part": p, "victim": x, "form": form}
						armed.Unlock()
					}
					ob["t0"], ob["t1"] = t0.UnixMilli(), time.Now().UnixMilli()
				case "d43":
					// A Delete that races a fragment move of the same partition (D43). Partition p is being handed over
					// from B (previous owner, still holds the data) to A (owner). The Delete of a key of p is stopped on A
					// right after it took A's fragment lock; B's balancer then exports the table and sends it to A, whose
					// merge waits for that lock; the Delete is released and waits for B's fragment lock, held by the move.
					// The cycle is broken by client timeouts: the MOVEFRAGMENT call started first and gives up first, the
					// Delete is acknowledged, and the merges still queued on A re-import the key.
					t0 := time.Now()
					ob = map[string]interface{}{"r": "ok", "found": false}
					view := cl.Live()[0]
					for p := uint64(0); p < view.Cfg.PartitionCount && ob["found"] == false; p++ {
						ow := view.DB.VerifPrimary().PartitionByID(p).Owners()
						if len(ow) != 2 {
							continue
						}
						a, b := cl.indexOf(ow[1].Name), cl.indexOf(ow[0].Name)
						if a < 0 || b < 0 {
							continue
						}
						ks := cl.Members[b].DB.VerifDMap().VerifFragmentKeys(partitions.PRIMARY, op.D, p)
						if len(ks) == 0 || len(cl.Members[a].DB.VerifDMap().VerifFragmentKeys(partitions.PRIMARY, op.D, p)) != 0 {
							continue
						}
						key := ""
						for _, k := range ks {
							if key == "" || k < key {
								key = k
							}
						}
						spec := &armSpec{point: "delete.locked", victim: "pause", nth: 1, cl: cl, reached: make(chan struct{}), release: make(chan struct{})}
						armed.Lock()
						armed.spec = spec
						armed.Unlock()
						dm, err := cl.Members[a].Emb.NewDMap(op.D)
						if err != nil {
							ob["r"] = "harness:" + err.Error()
							break
						}
						delDone := make(chan error, 1)
						go func() {
							ctx, cancel := context.WithTimeout(context.Background(), 60*time.Second)
							defer cancel()
							_, err := dm.Delete(ctx, key)
							delDone <- err
						}()
						select {
						case <-spec.reached:
						case <-time.After(5 * time.Second):
							ob["r"] = "harness:the Delete did not reach its fail point"
						}
						if ob["r"] != "ok" {
							close(spec.release)
							break
						}
						moveDone := make(chan struct{})
						go func() {
							cl.Members[b].DB.VerifBalancer().BalanceEagerly()
							close(moveDone)
						}()
						time.Sleep(300 * time.Millisecond)
						close(spec.release)
						var delErr error
						select {
						case delErr = <-delDone:
						case <-time.After(60 * time.Second):
							delErr = fmt.Errorf("no answer within 60s")
						}
						select {
						case <-moveDone:
						case <-time.After(60 * time.Second):
						}
						// let the merges that are still queued on the owner finish
						time.Sleep(500 * time.Millisecond)
						ctx, cancel := context.WithTimeout(context.Background(), 10*time.Second)
						g, gerr := dm.Get(ctx, key)
						cancel()
						ob["found"], ob["part"], ob["owner"], ob["sender"] = true, p, a, b
						ob["k"] = hex.EncodeToString([]byte(key))
						ob["del"] = olricErr(delErr)
						ob["get"] = olricErr(gerr)
						if gerr == nil {
							v, _ := g.Byte()
							ob["val"] = hex.EncodeToString(v)
						}
						ob["ms"] = time.Since(t0).Milliseconds()
					}
					ob["t0"], ob["t1"] = t0.UnixMilli(), time.Now().UnixMilli()
				case "d46":
					// a fragment move whose receiver has looked up (created) its fragment and not yet locked it, while the
					// receiver's janitor passes: {"op":"d46","c":"<fail point>","m":<sender>}. The sender's balancer run is
					// started, the first goroutine that reaches the point is held, the janitor runs on every member, the
					// goroutine is released and the balancer run is awaited.
					t0 := time.Now()
					ob = map[string]interface{}{"r": "ok", "hit": false}
					spec := &armSpec{point: op.C, victim: "pause", nth: 1, cl: cl, reached: make(chan struct{}), release: make(chan struct{})}
					armed.Lock()
					armed.spec = spec
					armed.fired = nil
					armed.Unlock()
					moveDone := make(chan struct{})
					go func() {
						for _, m := range cl.Members {
							if m.Alive {
								m.DB.VerifBalancer().BalanceEagerly()
							}
						}
						close(moveDone)
					}()
					select {
					case <-spec.reached:
						ob["hit"] = true
						armed.Lock()
						fired := armed.fired
						armed.Unlock()
						ob["fired"] = fired
						// the janitor of the member that is held at the point (the sender holds its own fragment lock
						// for the whole move: its janitor would wait for that)
						if w, ok := fired["who"].(int); ok && w >= 0 && cl.Members[w].Alive {
							cl.Members[w].DB.VerifDMap().VerifJanitor()
						}
						close(spec.release)
					case <-moveDone:
					case <-time.After(20 * time.Second):
						ob["r"] = "harness:neither the fail point nor the end of the balancer run was reached"
					}
					select {
					case <-moveDone:
					case <-time.After(60 * time.Second):
						ob["r"] = "harness:the balancer run did not end"
					}
					armed.Lock()
					if armed.spec == spec {
						armed.spec = nil
					}
					armed.Unlock()
					ob["t0"], ob["t1"] = t0.UnixMilli(), time.Now().UnixMilli()
				case "fired":
					armed.Lock()
					ob = map[string]interface{}{"r": "ok", "fired": armed.fired, "t0": time.Now().UnixMilli(), "t1": time.Now().UnixMilli()}
					armed.spec = nil
					armed.Unlock()
				case "sync":
					t0 := time.Now()
					cl.Sync()
					ob = map[string]interface{}{"r": "ok", "t0": t0.UnixMilli(), "t1": time.Now().UnixMilli()}
				case "routing":
					ob = map[string]interface{}{"r": "ok", "routing": cl.routingDump(), "t0": time.Now().UnixMilli(), "t1": time.Now().UnixMilli()}
				case "clientroute":
					// a cluster client created NOW (it fetches the current routing table) and every live member: to which member does
					// a key of DMap op.D go? The members take the last entry of the partition's owners list (Partition.Owner).
					t0 := time.Now()
					ob = map[string]interface{}{"r": "ok", "t0": t0.UnixMilli()}
					var addrs []string
					for _, m := range cl.Live() {
						addrs = append(addrs, m.Addr)
					}
					cc, err := olric.NewClusterClient(addrs, olric.WithLogger(log.New(io.Discard, "", 0)))
					if err != nil {
						ob["r"] = "env:" + err.Error()
					} else {
						_ = cc.RefreshMetadata(context.Background())
						var diffs []map[string]interface{}
						multi := 0
						for _, kx := range op.Ks {
							kb, _ := hex.DecodeString(kx)
							key := string(kb)
							h := partitions.HKey(op.D, key)
							_, _, addr, addr2, err := cc.VerifSmartPick(op.D, key)
							if err != nil {
								diffs = append(diffs, map[string]interface{}{"k": kx, "err": err.Error()})
								continue
							}
							for i, m := range cl.Live() {
								part := m.DB.VerifPrimary().PartitionByHKey(h)
								if i == 0 && part.OwnerCount() > 1 {
									multi++
								}
								own := part.Owner().Name
								if own != addr || own != addr2 {
									diffs = append(diffs, map[string]interface{}{"k": kx, "member": m.Addr, "member_owner": own, "client": addr, "client_by_part": addr2, "owners": part.OwnerCount()})
									break
								}
							}
						}
						ob["diffs"] = diffs
						ob["multi_owner_keys"] = multi
						_ = cc.Close(context.Background())
					}
					ob["t1"] = time.Now().UnixMilli()
				default:
					ob = r.runOp(op)
				}
				if op.Op == "waitstable" && ob["r"] == "ok" {
					atomic.StoreInt32(&settled, 1)
				}
				res.Obs = append(res.Obs, ob)
			}
			close(stopWatch)
			if atomic.LoadInt32(&flapped) == 1 {
				if res.Env == nil {
					res.Env = map[string]interface{}{}
				}
				res.Env["flapped"] = flapNote.Load()
			}
			cl.Shutdown()
			enc, _ := json.Marshal(res)
			out.Write(enc)
			out.WriteString("\n")
			out.Flush()
			_ = fmt.Sprint
		}
		return nil
	})
}
