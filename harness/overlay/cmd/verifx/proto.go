//go:build verif

package main

// C16 (no request can crash or wedge a member), harness side.
//
//   proto       in-process: the real protocol.Parse*Command functions and the real server.ServeMux +
//               ServeMuxWrapper are called on argument vectors under recover() and a watchdog (a parser which
//               does not return within 200 ms is reported as hung and the process exits with status 7, like
//               `store` does, because the runaway goroutine cannot be stopped).
//   serve       starts ONE real olric member (StartCluster) and prints how to reach it; lives until stdin closes.
//   socketfuzz  re-executes this binary as a CHILD PROCESS with `serve`, writes command vectors / raw byte streams /
//               crafted internal payloads to TCP connections of the child and requires after each of them that the
//               child is alive and still answers PING on that connection (or on a new one when the server closed
//               it) and on a second connection. Reports the vector that killed or wedged the member.
//
// Every subcommand reads one JSON request per input line and prints one JSON result per line. Nothing in here is
// random: all inputs come from the requests.

import (
	"bufio"
	"bytes"
	"encoding/hex"
	"encoding/json"
	"errors"
	"fmt"
	"io"
	"net"
	"os"
	"os/exec"
	"sort"
	"strconv"
	"strings"
	"sync"
	"sync/atomic"
	"time"

	"github.com/olric-data/olric/internal/cluster/partitions"
	"github.com/olric-data/olric/internal/discovery"
	"github.com/olric-data/olric/internal/kvstore/table"
	"github.com/olric-data/olric/internal/protocol"
	"github.com/olric-data/olric/internal/server"
	"github.com/tidwall/redcon"
	"github.com/vmihailenco/msgpack/v5"
)

// ------------------------------------------------------------------------------------------------
// in-process: parsers
// ------------------------------------------------------------------------------------------------

// fieldCtx turns parsed values into the compact terms the Coq runner reads (Model/ProtoRun.v):
// strings become indices into the request's token alphabet, floats become value ids of the float table.
type fieldCtx struct {
	idx  map[string]int
	fids map[string]int
}

const missing = 4999

func (c *fieldCtx) s(x string) string {
	if i, ok := c.idx[x]; ok {
		return "Fs " + strconv.Itoa(i)
	}
	return "Fs " + strconv.Itoa(missing)
}
func (c *fieldCtx) bs(x []byte) string { return c.s(string(x)) }
func (c *fieldCtx) z(x int64) string {
	return "Fz (" + strconv.FormatInt(x, 10) + ")"
}
func (c *fieldCtx) u(x uint64) string {
	return "Fz (" + strconv.FormatUint(x, 10) + ")"
}
func (c *fieldCtx) b(x bool) string {
	if x {
		return "Fb true"
	}
	return "Fb false"
}
func floatKey(v float64) string { return strconv.FormatFloat(v, 'g', -1, 64) }
func (c *fieldCtx) f(v float64) string {
	if i, ok := c.fids[floatKey(v)]; ok {
		return "Ff " + strconv.Itoa(i)
	}
	return "Ff " + strconv.Itoa(missing)
}
func (c *fieldCtx) l(xs []string) string {
	parts := make([]string, len(xs))
	for i, x := range xs {
		if j, ok := c.idx[x]; ok {
			parts[i] = strconv.Itoa(j)
		} else {
			parts[i] = strconv.Itoa(missing)
		}
	}
	return "Fl [" + strings.Join(parts, ";") + "]"
}

type parserFn func(c *fieldCtx, cmd redcon.Command) ([]string, error)

// The order of the fields is the order of `fields_of` in Model/ProtoRun.v.
var parsers = map[string]parserFn{
	"dm.put": func(c *fieldCtx, cmd redcon.Command) ([]string, error) {
		p, err := protocol.ParsePutCommand(cmd)
		if err != nil {
			return nil, err
		}
		return []string{c.s(p.DMap), c.s(p.Key), c.bs(p.Value), c.f(p.EX), c.z(p.PX), c.f(p.EXAT), c.z(p.PXAT), c.b(p.NX), c.b(p.XX)}, nil
	},
	"dm.putentry": func(c *fieldCtx, cmd redcon.Command) ([]string, error) {
		p, err := protocol.ParsePutEntryCommand(cmd)
		if err != nil {
			return nil, err
		}
		return []string{c.s(p.DMap), c.s(p.Key), c.bs(p.Value)}, nil
	},
	"dm.get": func(c *fieldCtx, cmd redcon.Command) ([]string, error) {
		p, err := protocol.ParseGetCommand(cmd)
		if err != nil {
			return nil, err
		}
		return []string{c.s(p.DMap), c.s(p.Key), c.b(p.Raw)}, nil
	},
	"dm.getentry": func(c *fieldCtx, cmd redcon.Command) ([]string, error) {
		p, err := protocol.ParseGetEntryCommand(cmd)
		if err != nil {
			return nil, err
		}
		return []string{c.s(p.DMap), c.s(p.Key), c.b(p.Replica)}, nil
	},
	"dm.del": func(c *fieldCtx, cmd redcon.Command) ([]string, error) {
		p, err := protocol.ParseDelCommand(cmd)
		if err != nil {
			return nil, err
		}
		return []string{c.s(p.DMap), c.l(p.Keys)}, nil
	},
	"dm.delentry": func(c *fieldCtx, cmd redcon.Command) ([]string, error) {
		p, err := protocol.ParseDelEntryCommand(cmd)
		if err != nil {
			return nil, err
		}
		return []string{c.s(p.Del.DMap), c.l(p.Del.Keys), c.b(p.Replica)}, nil
	},
	"dm.pexpire": func(c *fieldCtx, cmd redcon.Command) ([]string, error) {
		p, err := protocol.ParsePExpireCommand(cmd)
		if err != nil {
			return nil, err
		}
		return []string{c.s(p.DMap), c.s(p.Key), c.z(int64(p.Milliseconds))}, nil
	},
	"dm.expire": func(c *fieldCtx, cmd redcon.Command) ([]string, error) {
		p, err := protocol.ParseExpireCommand(cmd)
		if err != nil {
			return nil, err
		}
		return []string{c.s(p.DMap), c.s(p.Key), c.z(int64(p.Seconds))}, nil
	},
	"dm.destroy": func(c *fieldCtx, cmd redcon.Command) ([]string, error) {
		p, err := protocol.ParseDestroyCommand(cmd)
		if err != nil {
			return nil, err
		}
		return []string{c.s(p.DMap), c.b(p.Local)}, nil
	},
	"dm.scan": func(c *fieldCtx, cmd redcon.Command) ([]string, error) {
		p, err := protocol.ParseScanCommand(cmd)
		if err != nil {
			return nil, err
		}
		return []string{c.u(p.PartID), c.s(p.DMap), c.u(p.Cursor), c.z(int64(p.Count)), c.s(p.Match), c.b(p.Replica)}, nil
	},
	"dm.incr": func(c *fieldCtx, cmd redcon.Command) ([]string, error) {
		p, err := protocol.ParseIncrCommand(cmd)
		if err != nil {
			return nil, err
		}
		return []string{c.s(p.DMap), c.s(p.Key), c.z(int64(p.Delta))}, nil
	},
	"dm.decr": func(c *fieldCtx, cmd redcon.Command) ([]string, error) {
		p, err := protocol.ParseDecrCommand(cmd)
		if err != nil {
			return nil, err
		}
		return []string{c.s(p.DMap), c.s(p.Key), c.z(int64(p.Delta))}, nil
	},
	"dm.getput": func(c *fieldCtx, cmd redcon.Command) ([]string, error) {
		p, err := protocol.ParseGetPutCommand(cmd)
		if err != nil {
			return nil, err
		}
		return []string{c.s(p.DMap), c.s(p.Key), c.bs(p.Value), c.b(p.Raw)}, nil
	},
	"dm.incrbyfloat": func(c *fieldCtx, cmd redcon.Command) ([]string, error) {
		p, err := protocol.ParseIncrByFloatCommand(cmd)
		if err != nil {
			return nil, err
		}
		return []string{c.s(p.DMap), c.s(p.Key), c.f(p.Delta)}, nil
	},
	"dm.lock": func(c *fieldCtx, cmd redcon.Command) ([]string, error) {
		p, err := protocol.ParseLockCommand(cmd)
		if err != nil {
			return nil, err
		}
		return []string{c.s(p.DMap), c.s(p.Key), c.f(p.Deadline), c.f(p.EX), c.z(p.PX)}, nil
	},
	"dm.unlock": func(c *fieldCtx, cmd redcon.Command) ([]string, error) {
		p, err := protocol.ParseUnlockCommand(cmd)
		if err != nil {
			return nil, err
		}
		return []string{c.s(p.DMap), c.s(p.Key), c.s(p.Token)}, nil
	},
	"dm.locklease": func(c *fieldCtx, cmd redcon.Command) ([]string, error) {
		p, err := protocol.ParseLockLeaseCommand(cmd)
		if err != nil {
			return nil, err
		}
		return []string{c.s(p.DMap), c.s(p.Key), c.s(p.Token), c.f(p.Timeout)}, nil
	},
	"dm.plocklease": func(c *fieldCtx, cmd redcon.Command) ([]string, error) {
		p, err := protocol.ParsePLockLeaseCommand(cmd)
		if err != nil {
			return nil, err
		}
		return []string{c.s(p.DMap), c.s(p.Key), c.s(p.Token), c.z(p.Timeout)}, nil
	},
	"ping": func(c *fieldCtx, cmd redcon.Command) ([]string, error) {
		p, err := protocol.ParsePingCommand(cmd)
		if err != nil {
			return nil, err
		}
		return []string{c.s(p.Message)}, nil
	},
	"internal.node.movefragment": func(c *fieldCtx, cmd redcon.Command) ([]string, error) {
		p, err := protocol.ParseMoveFragmentCommand(cmd)
		if err != nil {
			return nil, err
		}
		return []string{c.bs(p.Payload)}, nil
	},
	"internal.node.updaterouting": func(c *fieldCtx, cmd redcon.Command) ([]string, error) {
		p, err := protocol.ParseUpdateRoutingCommand(cmd)
		if err != nil {
			return nil, err
		}
		return []string{c.bs(p.Payload), c.u(p.CoordinatorID)}, nil
	},
	"internal.node.lengthofpart": func(c *fieldCtx, cmd redcon.Command) ([]string, error) {
		p, err := protocol.ParseLengthOfPartCommand(cmd)
		if err != nil {
			return nil, err
		}
		return []string{c.u(p.PartID), c.b(p.Replica)}, nil
	},
	"stats": func(c *fieldCtx, cmd redcon.Command) ([]string, error) {
		p, err := protocol.ParseStatsCommand(cmd)
		if err != nil {
			return nil, err
		}
		return []string{c.b(p.CollectRuntime)}, nil
	},
	"publish": func(c *fieldCtx, cmd redcon.Command) ([]string, error) {
		p, err := protocol.ParsePublishCommand(cmd)
		if err != nil {
			return nil, err
		}
		return []string{c.s(p.Channel), c.s(p.Message)}, nil
	},
	"publish.internal": func(c *fieldCtx, cmd redcon.Command) ([]string, error) {
		p, err := protocol.ParsePublishInternalCommand(cmd)
		if err != nil {
			return nil, err
		}
		return []string{c.s(p.Channel), c.s(p.Message)}, nil
	},
	"subscribe": func(c *fieldCtx, cmd redcon.Command) ([]string, error) {
		p, err := protocol.ParseSubscribeCommand(cmd)
		if err != nil {
			return nil, err
		}
		return []string{c.l(p.Channels)}, nil
	},
	"psubscribe": func(c *fieldCtx, cmd redcon.Command) ([]string, error) {
		p, err := protocol.ParsePSubscribeCommand(cmd)
		if err != nil {
			return nil, err
		}
		return []string{c.l(p.Patterns)}, nil
	},
	"pubsub channels": func(c *fieldCtx, cmd redcon.Command) ([]string, error) {
		p, err := protocol.ParsePubSubChannelsCommand(cmd)
		if err != nil {
			return nil, err
		}
		return []string{c.s(p.Pattern)}, nil
	},
	"pubsub numpat": func(c *fieldCtx, cmd redcon.Command) ([]string, error) {
		_, err := protocol.ParsePubSubNumpatCommand(cmd)
		if err != nil {
			return nil, err
		}
		return []string{}, nil
	},
	"pubsub numsub": func(c *fieldCtx, cmd redcon.Command) ([]string, error) {
		p, err := protocol.ParsePubSubNumsubCommand(cmd)
		if err != nil {
			return nil, err
		}
		return []string{c.l(p.Channels)}, nil
	},
	"cluster.routingtable": func(c *fieldCtx, cmd redcon.Command) ([]string, error) {
		_, err := protocol.ParseClusterRoutingTable(cmd)
		if err != nil {
			return nil, err
		}
		return []string{}, nil
	},
	"cluster.members": func(c *fieldCtx, cmd redcon.Command) ([]string, error) {
		_, err := protocol.ParseClusterMembers(cmd)
		if err != nil {
			return nil, err
		}
		return []string{}, nil
	},
}

func errClass(err error) string {
	var ne *strconv.NumError
	switch {
	case errors.Is(err, protocol.ErrInvalidArgument):
		return "IE EInvalidArg"
	case errors.As(err, &ne):
		if ne.Err == strconv.ErrRange {
			return "IE ENumRange"
		}
		return "IE ENumSyntax"
	case err.Error() == "syntax error":
		return "IE ESyntax"
	case strings.HasPrefix(err.Error(), "wrong number of arguments"):
		return "IE EWrongArgs"
	}
	return "IE EOther"
}

type protoReq struct {
	ID      int      `json:"id"`
	Kind    string   `json:"k"` // parse | dispatch
	Fn      string   `json:"fn"`
	Alpha   []string `json:"alpha"`  // hex tokens
	Prefix  []int    `json:"prefix"` // indices into alpha
	NFree   int      `json:"nfree"`  // the free positions range over alpha[0:nfree] (0 = all)
	MinFree int      `json:"minfree"`
	MaxFree int      `json:"maxfree"` // enumerate every suffix over alpha of length minfree..maxfree ...
	Vecs    [][]int  `json:"vecs"`    // ... or, when present, exactly these vectors (prefix not applied)
	Start   int      `json:"start"`   // skip the first `start` vectors (resume after a hang)
	Full    bool     `json:"full"`    // report every outcome (run-length encoded); otherwise classes + bad vectors only
	Regs    []string `json:"regs"`    // dispatch: registered command names
	Precond *bool    `json:"precond"` // dispatch: nil = no precondition function
}

type protoRes struct {
	ID      int               `json:"id"`
	N       int               `json:"n"`
	Runs    [][2]interface{}  `json:"runs,omitempty"`
	Classes map[string]int    `json:"classes"`
	Bad     []json.RawMessage `json:"bad,omitempty"`
	FTab    [][3]interface{}  `json:"ftab,omitempty"`
	HungAt  *int              `json:"hung_at,omitempty"`
}

// shared with the watchdog
type protoState struct {
	mu       sync.Mutex
	res      *protoRes
	busy     int32
	progress uint64
	curIdx   int
	curVec   []int
	lastOut  string
	lastCnt  int
	full     bool
}

func (st *protoState) record(idx int, vec []int, out string) {
	st.mu.Lock()
	defer st.mu.Unlock()
	r := st.res
	r.N++
	o := out
	if i := strings.Index(o, " #"); i >= 0 { // strip the panic message
		o = o[:i]
	}
	cls := o
	if strings.HasPrefix(o, "IO") {
		cls = "IO"
	} else if strings.HasPrefix(o, "JH") {
		cls = "JH"
	}
	r.Classes[cls]++
	if (o == "IP" || o == "IH" || o == "JP" || o == "JX") && len(r.Bad) < 20 {
		b, _ := json.Marshal(map[string]interface{}{"i": idx, "vec": vec, "o": out})
		r.Bad = append(r.Bad, b)
	}
	if !st.full {
		return
	}
	if n := len(r.Runs); n > 0 && r.Runs[n-1][1].(string) == o {
		r.Runs[n-1][0] = r.Runs[n-1][0].(int) + 1
	} else {
		r.Runs = append(r.Runs, [2]interface{}{1, o})
	}
}

func runParser(fn parserFn, ctx *fieldCtx, args [][]byte) (out string) {
	defer func() {
		if p := recover(); p != nil {
			out = "IP #" + fmt.Sprint(p)
		}
	}()
	fields, err := fn(ctx, redcon.Command{Args: args})
	if err != nil {
		return errClass(err)
	}
	return "IO [" + strings.Join(fields, ";") + "]"
}

// --- dispatch through the real mux + wrapper, with recording stub handlers -----------------------

type fakeConn struct {
	errs    []string
	handled string
}

func (c *fakeConn) RemoteAddr() string              { return "verif" }
func (c *fakeConn) Close() error                    { return nil }
func (c *fakeConn) WriteError(msg string)           { c.errs = append(c.errs, msg) }
func (c *fakeConn) WriteString(str string)          {}
func (c *fakeConn) WriteBulk(bulk []byte)           {}
func (c *fakeConn) WriteBulkString(bulk string)     {}
func (c *fakeConn) WriteInt(num int)                {}
func (c *fakeConn) WriteInt64(num int64)            {}
func (c *fakeConn) WriteUint64(num uint64)          {}
func (c *fakeConn) WriteArray(count int)            {}
func (c *fakeConn) WriteNull()                      {}
func (c *fakeConn) WriteRaw(data []byte)            {}
func (c *fakeConn) WriteAny(any interface{})        {}
func (c *fakeConn) Context() interface{}            { return nil }
func (c *fakeConn) SetContext(v interface{})        {}
func (c *fakeConn) SetReadBuffer(bytes int)         {}
func (c *fakeConn) Detach() redcon.DetachedConn     { return nil }
func (c *fakeConn) ReadPipeline() []redcon.Command  { return nil }
func (c *fakeConn) PeekPipeline() []redcon.Command  { return nil }
func (c *fakeConn) NetConn() net.Conn               { return nil }

type dispatcher struct {
	mux       *server.ServeMux
	consulted bool
}

func newDispatcher(regs []string, precond *bool) *dispatcher {
	d := &dispatcher{}
	var pf func(conn redcon.Conn, cmd redcon.Command) bool
	if precond != nil {
		v := *precond
		pf = func(conn redcon.Conn, cmd redcon.Command) bool {
			d.consulted = true
			if !v {
				conn.WriteError("ERR verif-precondition")
			}
			return v
		}
	}
	mux, w := server.VerifNewMux(pf)
	for i, name := range regs {
		idx := i
		w.HandleFunc(name, func(conn redcon.Conn, cmd redcon.Command) {
			conn.(*fakeConn).handled = strconv.Itoa(idx)
		})
	}
	d.mux = mux
	return d
}

func (d *dispatcher) run(args [][]byte) (out string) {
	defer func() {
		if p := recover(); p != nil {
			out = "JP #" + fmt.Sprint(p)
		}
	}()
	d.consulted = false
	c := &fakeConn{}
	d.mux.ServeRESP(c, redcon.Command{Args: args})
	pre := "false"
	if d.consulted {
		pre = "true"
	}
	switch {
	case c.handled != "":
		return "JH " + c.handled + " " + pre
	case len(c.errs) == 1 && c.errs[0] == "ERR verif-precondition":
		return "JB"
	case len(c.errs) == 1 && strings.HasPrefix(c.errs[0], "ERR wrong number of arguments"):
		return "JW"
	case len(c.errs) == 1 && strings.HasPrefix(c.errs[0], "ERR unknown command"):
		return "JU"
	case len(c.errs) == 1 && strings.HasPrefix(c.errs[0], "ERR empty command"):
		return "JE"
	}
	return "JX"
}

func floatTable(alpha [][]byte) ([][3]interface{}, map[string]int) {
	ids := map[string]int{"0": 0} // id 0 is the zero value of an unset float field
	var tab [][3]interface{}
	for _, t := range alpha {
		v, err := strconv.ParseFloat(string(t), 64)
		cls := "ok"
		if err != nil {
			cls = "syn"
			if ne, ok := err.(*strconv.NumError); ok && ne.Err == strconv.ErrRange {
				cls = "rng"
			}
			tab = append(tab, [3]interface{}{cls, 0, 0})
			continue
		}
		k := floatKey(v)
		id, ok := ids[k]
		if !ok {
			id = len(ids)
			ids[k] = id
		}
		// the conversion ParseExpireCommand performs (Go's float64 -> int64 conversion, whatever it does out of range)
		dur := int64(time.Duration(v * float64(time.Second)))
		tab = append(tab, [3]interface{}{cls, id, dur})
	}
	return tab, ids
}

func protoRun(req *protoReq, st *protoState) {
	alpha := make([][]byte, len(req.Alpha))
	ctx := &fieldCtx{idx: map[string]int{}}
	for i, h := range req.Alpha {
		b, err := hex.DecodeString(h)
		if err != nil {
			panic(err)
		}
		alpha[i] = b
		if _, dup := ctx.idx[string(b)]; !dup {
			ctx.idx[string(b)] = i
		}
	}
	var ftab [][3]interface{}
	ftab, ctx.fids = floatTable(alpha)
	st.mu.Lock()
	st.res = &protoRes{ID: req.ID, Classes: map[string]int{}}
	if req.Full && req.Kind == "parse" {
		st.res.FTab = ftab
	}
	st.full = req.Full
	st.mu.Unlock()

	var call func(args [][]byte) string
	switch req.Kind {
	case "parse":
		fn, ok := parsers[req.Fn]
		if !ok {
			panic("unknown parser " + req.Fn)
		}
		call = func(args [][]byte) string { return runParser(fn, ctx, args) }
	case "dispatch":
		d := newDispatcher(req.Regs, req.Precond)
		call = d.run
	default:
		panic("unknown kind " + req.Kind)
	}

	idx := 0
	one := func(vec []int) {
		if idx < req.Start {
			idx++
			return
		}
		args := make([][]byte, len(vec))
		for i, j := range vec {
			// every call gets its own copy: parsers keep sub-slices (zero-copy strings)
			args[i] = append([]byte(nil), alpha[j]...)
		}
		st.curIdx, st.curVec = idx, vec
		atomic.StoreInt32(&st.busy, 1)
		out := call(args)
		atomic.StoreInt32(&st.busy, 0)
		atomic.AddUint64(&st.progress, 1)
		st.record(idx, vec, out)
		idx++
	}
	if req.Vecs != nil {
		for _, v := range req.Vecs {
			one(v)
		}
		return
	}
	n := len(alpha)
	if req.NFree > 0 && req.NFree < n {
		n = req.NFree
	}
	for L := req.MinFree; L <= req.MaxFree; L++ {
		w := make([]int, L)
		for {
			vec := make([]int, 0, len(req.Prefix)+L)
			vec = append(vec, req.Prefix...)
			vec = append(vec, w...)
			one(vec)
			// next word, last position fastest
			p := L - 1
			for p >= 0 {
				w[p]++
				if w[p] < n {
					break
				}
				w[p] = 0
				p--
			}
			if p < 0 {
				break
			}
		}
	}
}

func init() {
	register("proto", func(args []string, in *bufio.Reader, out *bufio.Writer) error {
		st := &protoState{}
		emit := func() {
			st.mu.Lock()
			enc, _ := json.Marshal(st.res)
			st.mu.Unlock()
			out.Write(enc)
			out.WriteString("\n")
		}
		// watchdog: a call that makes no progress for 200 ms is a hang
		go func() {
			var last uint64
			var since time.Time
			for {
				time.Sleep(20 * time.Millisecond)
				p := atomic.LoadUint64(&st.progress)
				if atomic.LoadInt32(&st.busy) == 0 || p != last {
					last = p
					since = time.Now()
					continue
				}
				if time.Since(since) >= 200*time.Millisecond {
					i := st.curIdx
					st.record(i, st.curVec, "IH")
					st.mu.Lock()
					st.res.HungAt = &i
					st.mu.Unlock()
					emit()
					out.Flush()
					os.Exit(7)
				}
			}
		}()
		dec := json.NewDecoder(in)
		for dec.More() {
			var req protoReq
			if err := dec.Decode(&req); err != nil {
				return err
			}
			protoRun(&req, st)
			emit()
		}
		return nil
	})
}

// ------------------------------------------------------------------------------------------------
// serve: one real member in this process
// ------------------------------------------------------------------------------------------------

type serveInfo struct {
	Addr     string           `json:"addr"`
	Parts    uint64           `json:"parts"`
	Commands []string         `json:"commands"`
	This     discovery.Member `json:"this"`
}

func init() {
	register("serve", func(args []string, in *bufio.Reader, out *bufio.Writer) error {
		parts := uint64(7)
		tsize := uint64(1 << 16)
		if len(args) > 0 {
			parts, _ = strconv.ParseUint(args[0], 10, 64)
		}
		if len(args) > 1 {
			tsize, _ = strconv.ParseUint(args[1], 10, 64)
		}
		cl, err := StartCluster(ClusterOpts{Members: 1, Replicas: 1, Partitions: parts, TableSize: tsize})
		if err != nil {
			return err
		}
		m := cl.Members[0]
		info := serveInfo{Addr: m.Addr, Parts: parts, Commands: m.DB.VerifServer().VerifCommands(), This: m.DB.VerifRT().This()}
		enc, _ := json.Marshal(info)
		out.Write(enc)
		out.WriteString("\n")
		out.Flush()
		// live until the parent closes our stdin (or dies)
		io.Copy(io.Discard, in)
		cl.Shutdown()
		return nil
	})
}

// ------------------------------------------------------------------------------------------------
// socketfuzz: the member is a child process
// ------------------------------------------------------------------------------------------------

type child struct {
	cmd    *exec.Cmd
	stdin  io.WriteCloser
	info   serveInfo
	exited chan struct{}
	errMu  sync.Mutex
	errBuf bytes.Buffer
}

func (c *child) alive() bool {
	select {
	case <-c.exited:
		return false
	default:
		return true
	}
}

func (c *child) stderrTail() string {
	c.errMu.Lock()
	defer c.errMu.Unlock()
	s := c.errBuf.String()
	// keep the panic message and the first frames
	if i := strings.Index(s, "panic:"); i >= 0 {
		s = s[i:]
	} else if i := strings.Index(s, "fatal error:"); i >= 0 {
		s = s[i:]
	}
	lines := strings.Split(s, "\n")
	if len(lines) > 14 {
		lines = lines[:14]
	}
	return strings.Join(lines, "\n")
}

type lockedWriter struct {
	c *child
}

func (w lockedWriter) Write(p []byte) (int, error) {
	w.c.errMu.Lock()
	defer w.c.errMu.Unlock()
	if w.c.errBuf.Len() < 1<<20 {
		w.c.errBuf.Write(p)
	}
	return len(p), nil
}

func startChild(parts, tsize uint64) (*child, error) {
	exe, err := os.Executable()
	if err != nil {
		return nil, err
	}
	c := &child{exited: make(chan struct{})}
	c.cmd = exec.Command(exe, "serve", strconv.FormatUint(parts, 10), strconv.FormatUint(tsize, 10))
	c.cmd.Stderr = lockedWriter{c}
	c.stdin, err = c.cmd.StdinPipe()
	if err != nil {
		return nil, err
	}
	stdout, err := c.cmd.StdoutPipe()
	if err != nil {
		return nil, err
	}
	if err := c.cmd.Start(); err != nil {
		return nil, err
	}
	lineCh := make(chan []byte, 1)
	go func() {
		r := bufio.NewReaderSize(stdout, 1<<16)
		line, _ := r.ReadBytes('\n')
		lineCh <- line
		io.Copy(io.Discard, r)
	}()
	go func() {
		c.cmd.Wait()
		close(c.exited)
	}()
	select {
	case line := <-lineCh:
		if err := json.Unmarshal(line, &c.info); err != nil {
			c.kill()
			return nil, fmt.Errorf("child did not report its address: %q %s", line, c.stderrTail())
		}
	case <-time.After(30 * time.Second):
		c.kill()
		return nil, fmt.Errorf("child did not start within 30s")
	}
	return c, nil
}

// kill and reap
func (c *child) kill() {
	if c.alive() {
		c.cmd.Process.Kill()
	}
	<-c.exited
	c.stdin.Close()
}

// stop gracefully (stdin EOF), then kill
func (c *child) stop() {
	c.stdin.Close()
	select {
	case <-c.exited:
	case <-time.After(3 * time.Second):
		c.cmd.Process.Kill()
		<-c.exited
	}
}

func respEncode(vec [][]byte) []byte {
	var b bytes.Buffer
	fmt.Fprintf(&b, "*%d\r\n", len(vec))
	for _, a := range vec {
		fmt.Fprintf(&b, "$%d\r\n", len(a))
		b.Write(a)
		b.WriteString("\r\n")
	}
	return b.Bytes()
}

type fuzzConn struct {
	c   net.Conn
	buf []byte
}

func dialChild(addr string) (*fuzzConn, error) {
	c, err := net.DialTimeout("tcp", addr, 2*time.Second)
	if err != nil {
		return nil, err
	}
	return &fuzzConn{c: c}, nil
}

// readUntil returns everything received before `marker`; status is "found", "closed" or "timeout".
func (f *fuzzConn) readUntil(marker []byte, d time.Duration) ([]byte, string) {
	deadline := time.Now().Add(d)
	tmp := make([]byte, 65536)
	for {
		if i := bytes.Index(f.buf, marker); i >= 0 {
			pre := append([]byte(nil), f.buf[:i]...)
			// drop through the end of the marker's line
			rest := f.buf[i+len(marker):]
			if j := bytes.Index(rest, []byte("\r\n")); j >= 0 {
				rest = rest[j+2:]
			}
			f.buf = append([]byte(nil), rest...)
			return pre, "found"
		}
		if len(f.buf) > 1<<22 {
			// keep only the tail; replies can be large (stats)
			f.buf = append([]byte(nil), f.buf[len(f.buf)-len(marker)-8:]...)
		}
		f.c.SetReadDeadline(deadline)
		n, err := f.c.Read(tmp)
		f.buf = append(f.buf, tmp[:n]...)
		if err != nil {
			if i := bytes.Index(f.buf, marker); i >= 0 {
				continue
			}
			if ne, ok := err.(net.Error); ok && ne.Timeout() {
				return f.buf, "timeout"
			}
			return f.buf, "closed"
		}
	}
}

var nonceCounter uint64

func nextNonce() []byte {
	nonceCounter++
	return []byte(fmt.Sprintf("zqVERIFNONCE%dqz", nonceCounter))
}

// ping on a connection; returns status and whether the connection is in pub/sub mode
func (f *fuzzConn) ping(d time.Duration) ([]byte, string, bool) {
	n := nextNonce()
	f.c.SetWriteDeadline(time.Now().Add(d))
	if _, err := f.c.Write(respEncode([][]byte{[]byte("PING"), n})); err != nil {
		return nil, "closed", false
	}
	pre, st := f.readUntil(n, d)
	pubsub := false
	if st == "found" && bytes.HasSuffix(pre, []byte("$4\r\npong\r\n$"+strconv.Itoa(len(n))+"\r\n")) {
		pubsub = true
		pre = pre[:len(pre)-len("*2\r\n$4\r\npong\r\n$"+strconv.Itoa(len(n))+"\r\n")]
	} else if st == "found" && len(pre) > 0 && pre[len(pre)-1] == '+' {
		pre = pre[:len(pre)-1]
	}
	return pre, st, pubsub
}

func replyClass(pre []byte) string {
	if len(pre) == 0 {
		return "none"
	}
	switch pre[0] {
	case '-':
		line := pre[1:]
		if i := bytes.IndexByte(line, '\r'); i >= 0 {
			line = line[:i]
		}
		w := strings.SplitN(string(line), " ", 2)
		msg := ""
		if len(w) > 1 {
			msg = w[1]
		}
		if len(msg) > 48 {
			msg = msg[:48]
		}
		return "err:" + w[0] + ":" + msg
	case '+', ':', '$', '*':
		return "ok:" + string(pre[:1])
	}
	return "other"
}

type fuzzItem struct {
	ID      int        `json:"id"`
	V       []string   `json:"v"`    // one command vector (hex tokens)
	Pipe    [][]string `json:"pipe"` // several vectors written at once
	Raw     *string    `json:"raw"`  // raw bytes (hex)
	Special string     `json:"special"`
	// special = routing: INTERNAL.NODE.UPDATEROUTING with a crafted table
	IDs      []uint64 `json:"ids"`
	NilRoute bool     `json:"nilroute"`
	Coord    string   `json:"coord"` // "self" or a decimal id
	// special = movefragment: INTERNAL.NODE.MOVEFRAGMENT with a crafted pack
	Part     uint64            `json:"part"`
	Kind     int               `json:"kindp"`
	Name     string            `json:"name"`
	InnerRaw *string           `json:"innerraw"`
	Inner    *innerPack        `json:"inner"`
	TimeoutM int               `json:"timeout_ms"`
}

type innerPack struct {
	Offset    uint64            `json:"offset"`
	Allocated uint64            `json:"alloc"`
	Inuse     uint64            `json:"inuse"`
	Garbage   uint64            `json:"garbage"`
	State     int               `json:"state"`
	HKeys     map[string]uint64 `json:"hkeys"`
	Memory    string            `json:"mem"`
	BadIndex  bool              `json:"badindex"`
}

type fuzzRes struct {
	ID     int    `json:"id"`
	Reply  string `json:"r"`
	Fail   string `json:"fail,omitempty"`
	Detail string `json:"detail,omitempty"`
	Sent   int    `json:"sent"`
}

type vroute struct {
	Owners  []discovery.Member
	Backups []discovery.Member
}

type vfragmentPack struct {
	PartID  uint64
	Kind    partitions.Kind
	Name    string
	Payload []byte
}

func unhexAll(xs []string) [][]byte {
	out := make([][]byte, len(xs))
	for i, x := range xs {
		b, err := hex.DecodeString(x)
		if err != nil {
			panic(err)
		}
		out[i] = b
	}
	return out
}

func craft(it *fuzzItem, info *serveInfo) ([]byte, error) {
	switch it.Special {
	case "routing":
		tbl := map[uint64]*vroute{}
		for _, id := range it.IDs {
			if it.NilRoute {
				tbl[id] = nil
			} else {
				tbl[id] = &vroute{Owners: []discovery.Member{info.This}}
			}
		}
		payload, err := msgpack.Marshal(tbl)
		if err != nil {
			return nil, err
		}
		coord := strconv.FormatUint(info.This.ID, 10)
		if it.Coord != "" && it.Coord != "self" {
			coord = it.Coord
		}
		return respEncode([][]byte{[]byte(protocol.Internal.UpdateRouting), payload, []byte(coord)}), nil
	case "movefragment":
		var inner []byte
		if it.InnerRaw != nil {
			b, err := hex.DecodeString(*it.InnerRaw)
			if err != nil {
				return nil, err
			}
			inner = b
		} else if it.Inner != nil {
			t := table.New(16)
			enc, err := table.Encode(t)
			if err != nil {
				return nil, err
			}
			p := &table.Pack{}
			if err := msgpack.Unmarshal(enc, p); err != nil {
				return nil, err
			}
			p.Offset, p.Allocated, p.Inuse, p.Garbage = it.Inner.Offset, it.Inner.Allocated, it.Inner.Inuse, it.Inner.Garbage
			p.State = table.State(it.Inner.State)
			p.HKeys = map[uint64]uint64{}
			for k, v := range it.Inner.HKeys {
				h, _ := strconv.ParseUint(k, 10, 64)
				p.HKeys[h] = v
			}
			mem, err := hex.DecodeString(it.Inner.Memory)
			if err != nil {
				return nil, err
			}
			p.Memory = mem
			if it.Inner.BadIndex {
				p.OffsetIndex = []byte{1, 2, 3}
			}
			inner, err = msgpack.Marshal(p)
			if err != nil {
				return nil, err
			}
		}
		fp := vfragmentPack{PartID: it.Part, Kind: partitions.Kind(it.Kind), Name: it.Name, Payload: inner}
		payload, err := msgpack.Marshal(fp)
		if err != nil {
			return nil, err
		}
		return respEncode([][]byte{[]byte(protocol.Internal.MoveFragment), payload}), nil
	}
	return nil, fmt.Errorf("unknown special %q", it.Special)
}

func init() {
	register("socketfuzz", func(args []string, in *bufio.Reader, out *bufio.Writer) error {
		parts, tsize := uint64(7), uint64(1<<16)
		if len(args) > 0 {
			parts, _ = strconv.ParseUint(args[0], 10, 64)
		}
		if len(args) > 1 {
			tsize, _ = strconv.ParseUint(args[1], 10, 64)
		}
		ch, err := startChild(parts, tsize)
		if err != nil {
			return err
		}
		defer func() { ch.stop() }()
		hdr, _ := json.Marshal(map[string]interface{}{"child": ch.info, "pid": ch.cmd.Process.Pid})
		out.Write(hdr)
		out.WriteString("\n")
		out.Flush()

		var A, B *fuzzConn
		closeConns := func() {
			if A != nil {
				A.c.Close()
				A = nil
			}
			if B != nil {
				B.c.Close()
				B = nil
			}
		}
		restart := func() error {
			closeConns()
			ch.kill()
			nc, err := startChild(parts, tsize)
			if err != nil {
				return err
			}
			ch = nc
			return nil
		}
		// the second connection must answer
		checkB := func(d time.Duration) string {
			for attempt := 0; attempt < 2; attempt++ {
				if B == nil {
					c, err := dialChild(ch.info.Addr)
					if err != nil {
						return "cannot connect a second connection: " + err.Error()
					}
					B = c
				}
				_, st, _ := B.ping(d)
				if st == "found" {
					return ""
				}
				B.c.Close()
				B = nil
				if st == "timeout" {
					return "PING on a second connection was not answered within " + d.String()
				}
			}
			return "a second connection is closed by the member before it answers PING"
		}
		sinceB := 0
		failures := 0
		dec := json.NewDecoder(in)
		for dec.More() {
			var it fuzzItem
			if err := dec.Decode(&it); err != nil {
				return err
			}
			if failures >= 4 {
				// enough evidence; every further failure costs a restart of the member
				enc, _ := json.Marshal(map[string]interface{}{"id": it.ID, "skipped": true})
				out.Write(enc)
				out.WriteString("\n")
				continue
			}
			res := fuzzRes{ID: it.ID}
			d := 1500 * time.Millisecond
			if it.TimeoutM > 0 {
				d = time.Duration(it.TimeoutM) * time.Millisecond
			}
			var payload []byte
			isRaw := false
			switch {
			case it.Special != "":
				payload, err = craft(&it, &ch.info)
				if err != nil {
					return err
				}
			case it.Raw != nil:
				payload, err = hex.DecodeString(*it.Raw)
				if err != nil {
					return err
				}
				isRaw = true
			case it.Pipe != nil:
				for _, v := range it.Pipe {
					payload = append(payload, respEncode(unhexAll(v))...)
				}
			default:
				payload = respEncode(unhexAll(it.V))
			}
			res.Sent = len(payload)
			fail := func(kind, detail string) {
				res.Fail = kind
				res.Detail = detail
			}
			waitDead := func() bool {
				select {
				case <-ch.exited:
					return true
				case <-time.After(400 * time.Millisecond):
					return false
				}
			}
			if isRaw {
				// raw bytes go to their own connection; that connection may legitimately be closed (protocol
				// error) or be left waiting for the rest of a bulk string
				R, err := dialChild(ch.info.Addr)
				if err != nil {
					fail("dead", "cannot connect: "+err.Error()+"\n"+ch.stderrTail())
				} else {
					R.c.SetWriteDeadline(time.Now().Add(d))
					R.c.Write(payload)
					// let the stream arrive on its own (the reader sees it without the bytes of the PING)
					time.Sleep(10 * time.Millisecond)
					_, st, _ := R.ping(250 * time.Millisecond)
					res.Reply = "raw:" + st
					R.c.Close()
					if st != "found" && waitDeadQuick(ch) {
						fail("dead", ch.stderrTail())
					}
				}
				if res.Fail == "" {
					if msg := checkB(d); msg != "" {
						if waitDead() {
							fail("dead", ch.stderrTail())
						} else {
							fail("unresponsive", msg)
						}
					}
				}
			} else {
				if A == nil {
					c, err := dialChild(ch.info.Addr)
					if err != nil {
						if waitDead() {
							fail("dead", ch.stderrTail())
						} else {
							fail("unresponsive", "cannot connect: "+err.Error())
						}
					}
					A = c
				}
				if A != nil {
					n := nextNonce()
					A.c.SetWriteDeadline(time.Now().Add(d))
					_, werr := A.c.Write(append(payload, respEncode([][]byte{[]byte("PING"), n})...))
					pre, st := A.readUntil(n, d)
					_ = werr
					switch st {
					case "found":
						if bytes.HasSuffix(pre, []byte("$4\r\npong\r\n$"+strconv.Itoa(len(n))+"\r\n")) {
							// pub/sub mode: this connection no longer executes commands; use a new one next time
							res.Reply = "pubsub"
							A.c.Close()
							A = nil
						} else {
							if len(pre) > 0 && pre[len(pre)-1] == '+' {
								pre = pre[:len(pre)-1]
							}
							res.Reply = replyClass(pre)
						}
					case "closed":
						A.c.Close()
						A = nil
						if waitDead() {
							fail("dead", ch.stderrTail())
						} else {
							// the member closed the connection; a new one must work
							res.Reply = "closed"
							c, err := dialChild(ch.info.Addr)
							if err != nil {
								fail("unresponsive", "cannot reconnect: "+err.Error())
							} else {
								A = c
								if _, st2, _ := A.ping(d); st2 != "found" {
									fail("unresponsive", "PING on a new connection: "+st2)
								}
							}
						}
					case "timeout":
						A.c.Close()
						A = nil
						if !ch.alive() {
							fail("dead", ch.stderrTail())
						} else {
							msg := checkB(d)
							if msg == "" {
								fail("wedged", "the connection did not answer the command nor the following PING within "+d.String()+"; a second connection still answers")
							} else {
								fail("wedged", "the connection did not answer within "+d.String()+"; "+msg)
							}
						}
					}
				}
				sinceB++
				if res.Fail == "" && (sinceB >= 16 || it.Special != "" || it.Pipe != nil) {
					sinceB = 0
					if msg := checkB(d); msg != "" {
						if waitDead() {
							fail("dead", ch.stderrTail())
						} else {
							fail("unresponsive", msg)
						}
					}
				}
			}
			if res.Fail == "" && !ch.alive() {
				fail("dead", ch.stderrTail())
			}
			enc, _ := json.Marshal(res)
			out.Write(enc)
			out.WriteString("\n")
			out.Flush()
			if res.Fail != "" {
				failures++
				if err := restart(); err != nil {
					return err
				}
			}
		}
		// final liveness
		fin := map[string]interface{}{"final": true, "alive": ch.alive()}
		if msg := checkB(2 * time.Second); msg != "" {
			fin["alive"] = false
			fin["detail"] = msg + "\n" + ch.stderrTail()
		}
		closeConns()
		// with every connection closed nothing may keep computing: CPU time of the child over 300 ms
		if ch.alive() {
			c0 := procCPUTicks(ch.cmd.Process.Pid)
			time.Sleep(300 * time.Millisecond)
			c1 := procCPUTicks(ch.cmd.Process.Pid)
			if c0 >= 0 && c1 >= 0 {
				fin["idle_cpu_ms"] = (c1 - c0) * 10
			}
		}
		enc, _ := json.Marshal(fin)
		out.Write(enc)
		out.WriteString("\n")
		return nil
	})
}

// utime+stime of a process in clock ticks (10 ms), -1 when unknown
func procCPUTicks(pid int) int64 {
	b, err := os.ReadFile("/proc/" + strconv.Itoa(pid) + "/stat")
	if err != nil {
		return -1
	}
	s := string(b)
	if i := strings.LastIndex(s, ")"); i >= 0 {
		s = s[i+1:]
	}
	f := strings.Fields(s)
	if len(f) < 13 {
		return -1
	}
	u, _ := strconv.ParseInt(f[11], 10, 64)
	k, _ := strconv.ParseInt(f[12], 10, 64)
	return u + k
}

func waitDeadQuick(ch *child) bool {
	select {
	case <-ch.exited:
		return true
	case <-time.After(150 * time.Millisecond):
		return false
	}
}

var _ = sort.Strings
