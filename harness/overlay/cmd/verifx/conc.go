//go:build verif

package main

import (
	"bufio"
	"encoding/json"
	"sync"
	"time"

	"github.com/olric-data/olric"
)

// conc: concurrent DMap scenarios. First input line = ClusterOpts; then one scenario per line:
//   {"id":..,"clients":[{"ops":[dOp...]},...],"background":"janitor"|"evict"|""}
// Every client runs its operations sequentially in its own goroutine; all start together. Each observation
// carries monotonic invocation/response instants (n0/n1, nanoseconds).

type cClient struct {
	Ops []dOp `json:"ops"`
}
type cScenario struct {
	ID         int       `json:"id"`
	Clients    []cClient `json:"clients"`
	Background string    `json:"background"`
	Setup      []dOp     `json:"setup"`
	Final      []dOp     `json:"final"`
}
type cResult struct {
	ID      int                        `json:"id"`
	Setup   []map[string]interface{}   `json:"setup"`
	Clients [][]map[string]interface{} `json:"clients"`
	Final   []map[string]interface{}   `json:"final"`
}

func init() {
	register("conc", func(args []string, in *bufio.Reader, out *bufio.Writer) error {
		dec := json.NewDecoder(in)
		var co ClusterOpts
		if err := dec.Decode(&co); err != nil {
			return err
		}
		cl, err := StartCluster(co)
		if err != nil {
			return err
		}
		defer cl.Shutdown()
		// create the shared clients up front (their lazy construction is not goroutine safe)
		if _, err := cl.ClusterClient(); err != nil {
			return err
		}
		for i := range cl.Members {
			cl.Raw(i)
		}
		for dec.More() {
			var sc cScenario
			if err := dec.Decode(&sc); err != nil {
				return err
			}
			res := cResult{ID: sc.ID, Clients: make([][]map[string]interface{}, len(sc.Clients))}
			r0 := &dRunner{cl: cl, locks: map[string]olric.LockContext{}, rawTk: map[string][2]string{}, rawTv: map[string]string{}}
			for i := range sc.Setup {
				res.Setup = append(res.Setup, r0.runOp(&sc.Setup[i]))
			}
			stop := make(chan struct{})
			var bg sync.WaitGroup
			if sc.Background != "" {
				bg.Add(1)
				go func() {
					defer bg.Done()
					for {
						select {
						case <-stop:
							return
						default:
						}
						for _, m := range cl.Members {
							if !m.Alive {
								continue
							}
							if sc.Background == "janitor" {
								m.DB.VerifDMap().VerifJanitor()
							} else {
								m.DB.VerifDMap().VerifEvictAll()
							}
						}
						time.Sleep(50 * time.Microsecond)
					}
				}()
			}
			start := make(chan struct{})
			var wg sync.WaitGroup
			for ci := range sc.Clients {
				wg.Add(1)
				go func(ci int) {
					defer wg.Done()
					r := &dRunner{cl: cl, locks: map[string]olric.LockContext{}, rawTk: map[string][2]string{}, rawTv: map[string]string{}}
					<-start
					for i := range sc.Clients[ci].Ops {
						res.Clients[ci] = append(res.Clients[ci], r.runOp(&sc.Clients[ci].Ops[i]))
					}
				}(ci)
			}
			close(start)
			wg.Wait()
			close(stop)
			bg.Wait()
			for i := range sc.Final {
				res.Final = append(res.Final, r0.runOp(&sc.Final[i]))
			}
			enc, _ := json.Marshal(res)
			out.Write(enc)
			out.WriteString("\n")
			out.Flush()
		}
		return nil
	})
}
