//go:build verif

package main

import (
	"bufio"
	"context"
	"encoding/json"
	"fmt"
	"io"
	"log"
	"math"
	"math/big"
	"net"
	"sort"
	"strconv"
	"strings"
	"time"

	"github.com/buraksezer/consistent"
	"github.com/hashicorp/memberlist"
	"github.com/olric-data/olric/config"
	"github.com/olric-data/olric/internal/cluster/partitions"
	"github.com/olric-data/olric/internal/cluster/routingtable"
	"github.com/olric-data/olric/internal/discovery"
	"github.com/olric-data/olric/internal/server"
	"github.com/olric-data/olric/pkg/storage"
	"github.com/redis/go-redis/v9"
)

// routing: exact differential of the two decision functions of distribute.go (property C13).
//
// Input line 1: {"clusters":[{"n":3,"p":13}, ...]}     bare routing-table clusters to start (real memberlist,
//               real RESP servers with the real LengthOfPart/UpdateRouting handlers, real partitions, no dmap).
// Further lines: one case each (see routingCase). For every case the REAL distributePrimaryCopies and
// distributeBackups run on the first node of the chosen cluster, against a real `consistent` ring over the
// chosen member set, with chosen previous lists and chosen fragment lengths / failing calls.
// Output: one line {"setup":...}, then one line per case, ring-fact records interleaved ({"ringfacts":...}).

func init() {
	register("routing", routingMain)
	extraConsts = append(extraConsts, func(out *bufio.Writer) {
		fmt.Fprintf(out, "Definition minimum_replica_count : N := %d.\n", config.MinimumReplicaCount)
		r := new(big.Rat).SetFloat64(config.DefaultLoadFactor)
		fmt.Fprintf(out, "Definition default_load_num : N := %s.\n", r.Num().String())
		fmt.Fprintf(out, "Definition default_load_den : N := %s.\n", r.Denom().String())
	})
}

type jmember struct {
	Name  string `json:"name"`
	ID    uint64 `json:"id"`
	Birth int64  `json:"birth"`
}

func jm(m discovery.Member) jmember { return jmember{Name: m.Name, ID: m.ID, Birth: m.Birthdate} }
func jms(ms []discovery.Member) []jmember {
	out := make([]jmember, 0, len(ms))
	for _, m := range ms {
		out = append(out, jm(m))
	}
	return out
}

type bareNode struct {
	rt   *routingtable.RoutingTable
	srv  *server.Server
	cfg  *config.Config
	name string
}

type bareCluster struct {
	nodes []*bareNode
	P     uint64
	live  []discovery.Member // discovery view of node 0, sorted by birthdate
	rings map[string]*consistent.Consistent
}

func bareConfig(P uint64, peers []string) (*config.Config, error) {
	c := config.New("local")
	c.PartitionCount = P
	mc := memberlist.DefaultLocalConfig()
	mc.BindAddr = "127.0.0.1"
	mc.BindPort = 0
	c.MemberlistConfig = mc
	c.BindAddr = "127.0.0.1"
	c.BindPort = freePort()
	mc.Name = net.JoinHostPort(c.BindAddr, strconv.Itoa(c.BindPort))
	c.LeaveTimeout = 200 * time.Millisecond
	c.ReplicaCount = 1
	c.LogOutput = io.Discard
	c.Logger = log.New(io.Discard, "", 0)
	c.LogVerbosity = 1
	c.RoutingTablePushInterval = time.Hour
	c.Client = config.NewClient()
	c.Client.MaxRetries = -1
	c.Client.DialTimeout = 300 * time.Millisecond
	c.Peers = peers
	if err := c.Sanitize(); err != nil {
		return nil, err
	}
	if err := c.Validate(); err != nil {
		return nil, err
	}
	return c, nil
}

func startBareCluster(n int, P uint64) (*bareCluster, error) {
	bc := &bareCluster{P: P, rings: map[string]*consistent.Consistent{}}
	var peers []string
	for i := 0; i < n; i++ {
		c, err := bareConfig(P, peers)
		if err != nil {
			return nil, err
		}
		rt, srv, err := routingtable.VerifNewBare(c)
		if err != nil {
			return nil, err
		}
		if err := rt.Join(); err != nil {
			return nil, err
		}
		if err := rt.Start(); err != nil {
			return nil, err
		}
		bc.nodes = append(bc.nodes, &bareNode{rt: rt, srv: srv, cfg: c, name: c.MemberlistConfig.Name})
		peers = append(peers, rt.Discovery().LocalNode().Address())
	}
	deadline := time.Now().Add(15 * time.Second)
	for {
		ok := true
		for _, nd := range bc.nodes {
			if nd.rt.Discovery().NumMembers() != n {
				ok = false
			}
			ring, _ := nd.rt.VerifRingMembers()
			if len(ring) != n {
				ok = false
			}
		}
		if ok {
			break
		}
		if time.Now().After(deadline) {
			return nil, fmt.Errorf("bare cluster of %d did not converge", n)
		}
		time.Sleep(10 * time.Millisecond)
	}
	bc.live = bc.nodes[0].rt.Discovery().GetMembers()
	if len(bc.live) != n {
		return nil, fmt.Errorf("bare cluster: %d live members, want %d", len(bc.live), n)
	}
	return bc, nil
}

func (bc *bareCluster) shutdown() {
	for _, nd := range bc.nodes {
		ctx, cancel := context.WithTimeout(context.Background(), 3*time.Second)
		_ = nd.rt.Shutdown(ctx)
		_ = nd.srv.Shutdown(ctx)
		cancel()
	}
}

func (bc *bareCluster) nodeByName(name string) *bareNode {
	for _, nd := range bc.nodes {
		if nd.name == name {
			return nd
		}
	}
	return nil
}

// fake fragment: only Stats().Length matters to Partition.Length()
type fakeFragment struct{ n int }

func (f *fakeFragment) Name() string                                              { return "verif" }
func (f *fakeFragment) Stats() storage.Stats                                      { return storage.Stats{Length: f.n} }
func (f *fakeFragment) Move(*partitions.Partition, string, []discovery.Member) error { return nil }
func (f *fakeFragment) Compaction() (bool, error)                                 { return true, nil }
func (f *fakeFragment) Destroy() error                                            { return nil }
func (f *fakeFragment) Close() error                                              { return nil }

type mref struct {
	K string `json:"k"` // live | rejoin | dead | ghost
	I int    `json:"i"`
}

type routingCase struct {
	ID          int            `json:"id"`
	Cluster     int            `json:"cluster"`
	Part        uint64         `json:"part"`
	R           int            `json:"r"`
	Ring        []mref         `json:"ring"`
	PrevOwners  []mref         `json:"prev_owners"`
	PrevBackups []mref         `json:"prev_backups"`
	LenP        map[string]int `json:"len_p"` // live index -> length, -1 = the call fails
	LenB        map[string]int `json:"len_b"`
	// op = "reports": the left-over-data handling of left_over_data.go / update.go
	Op      string                   `json:"op"`
	Table   map[string]reportRoute   `json:"table"`   // partition -> lists installed before the call
	Reports []reportIn               `json:"reports"` // reports handed to processLeftOverDataReports
	FragP   []uint64                 `json:"frag_p"`  // partitions of node 0 that hold primary data (for prepareLeftOverDataReport)
	FragB   []uint64                 `json:"frag_b"`
}

type reportRoute struct {
	O []mref `json:"o"`
	B []mref `json:"b"`
}

type reportIn struct {
	M       mref     `json:"m"`
	Parts   []uint64 `json:"parts"`
	Backups []uint64 `json:"backups"`
}

type reportRouteOut struct {
	O []jmember `json:"o"`
	B []jmember `json:"b"`
}

type reportsResult struct {
	ID        int                       `json:"id"`
	Op        string                    `json:"op"`
	Err       string                    `json:"err,omitempty"`
	P         uint64                    `json:"p"`
	Before    map[string]reportRouteOut `json:"before"`
	After     map[string]reportRouteOut `json:"after"`
	Reporters []jmember                 `json:"reporters"`
	PrepParts []uint64                  `json:"prepared_parts"`
	PrepBacks []uint64                  `json:"prepared_backups"`
}

func runReportsCase(clusters []*bareCluster, c *routingCase) reportsResult {
	res := reportsResult{ID: c.ID, Op: "reports", Before: map[string]reportRouteOut{}, After: map[string]reportRouteOut{}}
	err := func() error {
		if c.Cluster < 0 || c.Cluster >= len(clusters) {
			return fmt.Errorf("no cluster %d", c.Cluster)
		}
		bc := clusters[c.Cluster]
		drv := bc.nodes[0].rt
		res.P = bc.P
		owners := map[uint64][]discovery.Member{}
		backups := map[uint64][]discovery.Member{}
		for k, rr := range c.Table {
			p, err := strconv.ParseUint(k, 10, 64)
			if err != nil || p >= bc.P {
				return fmt.Errorf("bad partition %q", k)
			}
			o, err := bc.resolveAll(rr.O)
			if err != nil {
				return err
			}
			b, err := bc.resolveAll(rr.B)
			if err != nil {
				return err
			}
			owners[p], backups[p] = o, b
			res.Before[k] = reportRouteOut{O: jms(o), B: jms(b)}
		}
		var reps []routingtable.VerifReport
		for _, r := range c.Reports {
			m, err := bc.resolve(r.M)
			if err != nil {
				return err
			}
			for _, p := range append(append([]uint64{}, r.Parts...), r.Backups...) {
				if _, ok := owners[p]; !ok {
					return fmt.Errorf("report for partition %d which is not in the table", p)
				}
			}
			reps = append(reps, routingtable.VerifReport{Member: m, Partitions: r.Parts, Backups: r.Backups})
			res.Reporters = append(res.Reporters, jm(m))
		}
		ao, ab := drv.VerifProcessReports(owners, backups, reps)
		for p := range owners {
			k := strconv.FormatUint(p, 10)
			res.After[k] = reportRouteOut{O: jms(ao[p]), B: jms(ab[p])}
		}
		// prepareLeftOverDataReport of node 0 with fragments in the chosen partitions
		var undo []func()
		for _, p := range append(append([]uint64{}, c.FragP...), c.FragB...) {
			if p >= bc.P {
				return fmt.Errorf("fragment partition %d out of range", p)
			}
		}
		for _, p := range c.FragP {
			part := drv.VerifPrimary().PartitionByID(p)
			part.Map().Store("dmap.verif", &fakeFragment{n: 3})
			undo = append(undo, func() { part.Map().Delete("dmap.verif") })
		}
		for _, p := range c.FragB {
			part := drv.VerifBackup().PartitionByID(p)
			part.Map().Store("dmap.verif", &fakeFragment{n: 1})
			undo = append(undo, func() { part.Map().Delete("dmap.verif") })
		}
		pp, pb, err := drv.VerifPrepareReport()
		for _, f := range undo {
			f()
		}
		if err != nil {
			return err
		}
		res.PrepParts, res.PrepBacks = pp, pb
		return nil
	}()
	if err != nil {
		res.Err = err.Error()
	}
	return res
}

type routingResult struct {
	ID          int          `json:"id"`
	Err         string       `json:"err,omitempty"`
	Live        []jmember    `json:"live"`
	RingMembers []jmember    `json:"ring_members"`
	RingOwner   jmember      `json:"ring_owner"`
	Closest     [][]jmember  `json:"closest"` // index n-1 -> result of GetClosestNForPartition(part, n); null = insufficient
	PrevOwners  []jmember    `json:"prev_owners"`
	PrevBackups []jmember    `json:"prev_backups"`
	Owners      []jmember    `json:"owners"`
	Backups     []jmember    `json:"backups"`
	BackupsNil  bool         `json:"backups_nil"`
	RingKey     string       `json:"ring_key"`
}

func (bc *bareCluster) resolve(r mref) (discovery.Member, error) {
	switch r.K {
	case "live":
		if r.I < 0 || r.I >= len(bc.live) {
			return discovery.Member{}, fmt.Errorf("live index %d out of range", r.I)
		}
		return bc.live[r.I], nil
	case "rejoin": // a previous incarnation of a live address: same name, older birthdate, other ID
		if r.I < 0 || r.I >= len(bc.live) {
			return discovery.Member{}, fmt.Errorf("live index %d out of range", r.I)
		}
		m := bc.live[r.I]
		m.Birthdate -= 1_000_000_007
		m.ID = discovery.MemberID(m.Name, m.Birthdate)
		return m, nil
	case "dead", "ghost":
		// loopback addresses with closed ports: should the code ever call a departed member, the call fails at once
		name := fmt.Sprintf("127.0.0.1:%d", map[string]int{"dead": 2, "ghost": 12}[r.K]+r.I)
		b := int64(1_600_000_000_000_000_000) + int64(r.I)
		return discovery.Member{Name: name, NameHash: uint64(r.I) + 77, ID: discovery.MemberID(name, b), Birthdate: b}, nil
	}
	return discovery.Member{}, fmt.Errorf("bad member reference %q", r.K)
}

func (bc *bareCluster) resolveAll(rs []mref) ([]discovery.Member, error) {
	out := make([]discovery.Member, 0, len(rs))
	for _, r := range rs {
		m, err := bc.resolve(r)
		if err != nil {
			return nil, err
		}
		out = append(out, m)
	}
	return out, nil
}

var deadClient = redis.NewClient(&redis.Options{Addr: "127.0.0.1:1", MaxRetries: -1, DialTimeout: 500 * time.Millisecond})

// installLengths stores fake fragments of the given lengths in the partitions of the live nodes and makes
// the calls to the members marked -1 fail. Returns the undo function.
func (bc *bareCluster) installLengths(kind partitions.Kind, part uint64, lens map[string]int) (func(), error) {
	var undo []func()
	driver := bc.nodes[0]
	for k, n := range lens {
		i, err := strconv.Atoi(k)
		if err != nil || i < 0 || i >= len(bc.live) {
			return nil, fmt.Errorf("bad live index %q", k)
		}
		nd := bc.nodeByName(bc.live[i].Name)
		if nd == nil {
			return nil, fmt.Errorf("no node for %s", bc.live[i].Name)
		}
		if n < 0 {
			addr := nd.name
			old := driver.rt.VerifClient().VerifSetClient(addr, deadClient)
			undo = append(undo, func() { driver.rt.VerifClient().VerifSetClient(addr, old) })
			continue
		}
		ps := nd.rt.VerifPrimary()
		if kind == partitions.BACKUP {
			ps = nd.rt.VerifBackup()
		}
		p := ps.PartitionByID(part)
		p.Map().Store("dmap.verif", &fakeFragment{n: n})
		undo = append(undo, func() { p.Map().Delete("dmap.verif") })
	}
	return func() {
		for _, f := range undo {
			f()
		}
	}, nil
}

func ringKey(ms []discovery.Member) string {
	names := make([]string, 0, len(ms))
	for _, m := range ms {
		names = append(names, fmt.Sprintf("%s#%d", m.Name, m.ID))
	}
	sort.Strings(names)
	return strings.Join(names, ",")
}

type ringFacts struct {
	Cluster  int      `json:"cluster"`
	Key      string   `json:"key"`
	Members  int      `json:"members"`
	Ghosts   int      `json:"ghosts"`
	P        uint64   `json:"p"`
	Load     float64  `json:"load"`
	Bound    int      `json:"bound"`
	MaxOwned int      `json:"max_owned"`
	Problems []string `json:"problems"`
}

// checkRingFacts: the three assumptions the theorems make about `consistent`, on one concrete ring.
//  1. the owner of every partition is a member of the ring
//  2. GetClosestNForPartition(p, n) returns n distinct members starting with the owner for 1 <= n <= N and
//     ErrInsufficientMemberCount for n = N+1
//  3. no member owns more than ceil(floor(P/N) * load) partitions
func checkRingFacts(ring *consistent.Consistent, members []discovery.Member, P uint64, load float64) (bound, maxOwned int, problems []string) {
	in := map[uint64]bool{}
	for _, m := range members {
		in[m.ID] = true
	}
	N := len(members)
	owned := map[uint64]int{}
	for p := uint64(0); p < P; p++ {
		o, ok := ring.GetPartitionOwner(int(p)).(discovery.Member)
		if !ok {
			problems = append(problems, fmt.Sprintf("partition %d has no owner", p))
			continue
		}
		if !in[o.ID] {
			problems = append(problems, fmt.Sprintf("owner %s of partition %d is not a ring member", o.Name, p))
		}
		owned[o.ID]++
		for n := 1; n <= N+1; n++ {
			if n > 4 && n < N {
				continue
			}
			cl, err := ring.GetClosestNForPartition(int(p), n)
			if n == N+1 {
				if err != consistent.ErrInsufficientMemberCount {
					problems = append(problems, fmt.Sprintf("closest(%d,%d) with %d members: err=%v", p, n, N, err))
				}
				continue
			}
			if err != nil {
				problems = append(problems, fmt.Sprintf("closest(%d,%d): %v", p, n, err))
				continue
			}
			if len(cl) != n {
				problems = append(problems, fmt.Sprintf("closest(%d,%d) returned %d members", p, n, len(cl)))
				continue
			}
			seen := map[uint64]bool{}
			for i, x := range cl {
				m := x.(discovery.Member)
				if seen[m.ID] {
					problems = append(problems, fmt.Sprintf("closest(%d,%d) lists %s twice", p, n, m.Name))
				}
				seen[m.ID] = true
				if !in[m.ID] {
					problems = append(problems, fmt.Sprintf("closest(%d,%d) lists non-member %s", p, n, m.Name))
				}
				if i == 0 && m.ID != o.ID {
					problems = append(problems, fmt.Sprintf("closest(%d,%d) starts with %s, owner is %s", p, n, m.Name, o.Name))
				}
			}
		}
	}
	if N > 0 {
		bound = int(math.Ceil(float64(P/uint64(N)) * load))
	}
	for _, c := range owned {
		if c > maxOwned {
			maxOwned = c
		}
	}
	if maxOwned > bound {
		problems = append(problems, fmt.Sprintf("a member owns %d partitions, bound %d", maxOwned, bound))
	}
	if len(problems) > 20 {
		problems = problems[:20]
	}
	return
}

func routingMain(args []string, in *bufio.Reader, out *bufio.Writer) error {
	dec := json.NewDecoder(in)
	enc := json.NewEncoder(out)
	var setup struct {
		Clusters []struct {
			N int    `json:"n"`
			P uint64 `json:"p"`
		} `json:"clusters"`
	}
	if err := dec.Decode(&setup); err != nil {
		return fmt.Errorf("setup line: %w", err)
	}
	var clusters []*bareCluster
	defer func() {
		for _, bc := range clusters {
			bc.shutdown()
		}
	}()
	type setupOut struct {
		N            int       `json:"n"`
		P            uint64    `json:"p"`
		Load         float64   `json:"load"`
		Live         []jmember `json:"live"`
		OwnRingEqual bool      `json:"own_ring_equal"`
		Coordinator  jmember   `json:"coordinator"`
	}
	var so []setupOut
	for _, s := range setup.Clusters {
		bc, err := startBareCluster(s.N, s.P)
		if err != nil {
			return err
		}
		clusters = append(clusters, bc)
		// the ring built by VerifRing over the live set must answer like the node's own ring
		drv := bc.nodes[0].rt
		mine := drv.VerifRing(bc.live)
		eq := true
		for p := uint64(0); p < s.P; p++ {
			a := mine.GetPartitionOwner(int(p)).(discovery.Member)
			b := drv.VerifOwnRing().GetPartitionOwner(int(p)).(discovery.Member)
			if a.ID != b.ID {
				eq = false
			}
		}
		so = append(so, setupOut{N: s.N, P: s.P, Load: drv.VerifConfig().LoadFactor, Live: jms(bc.live), OwnRingEqual: eq,
			Coordinator: jm(drv.Discovery().GetCoordinator())})
	}
	if err := enc.Encode(map[string]interface{}{"setup": so}); err != nil {
		return err
	}
	for {
		var c routingCase
		if err := dec.Decode(&c); err == io.EOF {
			break
		} else if err != nil {
			return fmt.Errorf("case: %w", err)
		}
		if c.Op == "reports" {
			if err := enc.Encode(runReportsCase(clusters, &c)); err != nil {
				return err
			}
			continue
		}
		res := routingResult{ID: c.ID}
		err := func() error {
			if c.Cluster < 0 || c.Cluster >= len(clusters) {
				return fmt.Errorf("no cluster %d", c.Cluster)
			}
			bc := clusters[c.Cluster]
			drv := bc.nodes[0].rt
			if c.Part >= bc.P {
				return fmt.Errorf("partition %d out of range", c.Part)
			}
			ringMembers, err := bc.resolveAll(c.Ring)
			if err != nil {
				return err
			}
			if len(ringMembers) == 0 {
				return fmt.Errorf("empty ring")
			}
			key := ringKey(ringMembers)
			ring, ok := bc.rings[key]
			if !ok {
				if uint64(len(ringMembers)) > bc.P {
					// consistent panics ("not enough room to distribute partitions") when members > partitions
					return fmt.Errorf("ring with %d members over %d partitions", len(ringMembers), bc.P)
				}
				ring = drv.VerifRing(ringMembers)
				bc.rings[key] = ring
				ghosts := 0
				for _, r := range c.Ring {
					if r.K != "live" {
						ghosts++
					}
				}
				load := drv.VerifConfig().LoadFactor
				bound, maxOwned, problems := checkRingFacts(ring, ringMembers, bc.P, load)
				if err := enc.Encode(map[string]interface{}{"ringfacts": ringFacts{Cluster: c.Cluster, Key: key, Members: len(ringMembers),
					Ghosts: ghosts, P: bc.P, Load: load, Bound: bound, MaxOwned: maxOwned, Problems: problems}}); err != nil {
					return err
				}
			}
			res.RingKey = key
			prevO, err := bc.resolveAll(c.PrevOwners)
			if err != nil {
				return err
			}
			prevB, err := bc.resolveAll(c.PrevBackups)
			if err != nil {
				return err
			}
			res.Live = jms(drv.Discovery().GetMembers())
			res.RingMembers = jms(ringMembers)
			res.RingOwner = jm(ring.GetPartitionOwner(int(c.Part)).(discovery.Member))
			for n := 1; n <= c.R; n++ {
				cl, err := ring.GetClosestNForPartition(int(c.Part), n)
				if err != nil {
					res.Closest = append(res.Closest, nil)
					continue
				}
				ms := make([]jmember, 0, n)
				for _, x := range cl {
					ms = append(ms, jm(x.(discovery.Member)))
				}
				res.Closest = append(res.Closest, ms)
			}
			res.PrevOwners, res.PrevBackups = jms(prevO), jms(prevB)

			undo, err := bc.installLengths(partitions.PRIMARY, c.Part, c.LenP)
			if err != nil {
				return err
			}
			owners := drv.VerifDistributePrimary(c.Part, ring, prevO)
			undo()
			undo, err = bc.installLengths(partitions.BACKUP, c.Part, c.LenB)
			if err != nil {
				return err
			}
			backups := drv.VerifDistributeBackups(c.Part, ring, c.R, prevB)
			undo()
			res.Owners, res.Backups, res.BackupsNil = jms(owners), jms(backups), backups == nil
			return nil
		}()
		if err != nil {
			res.Err = err.Error()
		}
		if err := enc.Encode(res); err != nil {
			return err
		}
	}
	return nil
}
