//go:build verif

package main

// hstate: the white-box state of one DMap over the whole cluster, for the hand-over model (coq/Model/Balance.v,
// BalanceCrash.v): per partition the owners list and the backup owners list as the first live member holds them,
// and every copy (member, kind, partition, key, value, timestamp) found in a primary- or backup-kind fragment of
// any live member.

import (
	"encoding/hex"
	"sort"

	"github.com/olric-data/olric/internal/cluster/partitions"
)

func (r *dRunner) hstate(d string) map[string]interface{} {
	live := r.cl.Live()
	ob := map[string]interface{}{"r": "ok"}
	if len(live) == 0 {
		ob["r"] = "harness:no live member"
		return ob
	}
	view := live[0]
	sig := view.RoutingSignature()
	same := true
	for _, m := range live {
		if m.RoutingSignature() != sig {
			same = false
		}
	}
	ob["views_equal"] = same
	var parts []map[string]interface{}
	for p := uint64(0); p < view.Cfg.PartitionCount; p++ {
		var ow, bk []int
		for _, o := range view.DB.VerifPrimary().PartitionByID(p).Owners() {
			ow = append(ow, r.cl.indexOf(o.Name))
		}
		for _, o := range view.DB.VerifBackup().PartitionByID(p).Owners() {
			bk = append(bk, r.cl.indexOf(o.Name))
		}
		parts = append(parts, map[string]interface{}{"p": p, "owners": ow, "backups": bk})
	}
	ob["parts"] = parts
	copies := [][]interface{}{}
	for i, m := range r.cl.Members {
		if !m.Alive {
			continue
		}
		for _, kind := range []partitions.Kind{partitions.PRIMARY, partitions.BACKUP} {
			kn := "p"
			if kind == partitions.BACKUP {
				kn = "b"
			}
			for p := uint64(0); p < m.Cfg.PartitionCount; p++ {
				ks := m.DB.VerifDMap().VerifFragmentKeys(kind, d, p)
				hs := make([]uint64, 0, len(ks))
				for h := range ks {
					hs = append(hs, h)
				}
				sort.Slice(hs, func(a, b int) bool { return hs[a] < hs[b] })
				for _, h := range hs {
					c := m.DB.VerifDMap().VerifCopy(kind, d, h)
					if !c.Found {
						continue
					}
					copies = append(copies, []interface{}{i, kn, p, hex.EncodeToString([]byte(c.Key)), hex.EncodeToString(c.Value), c.Timestamp})
				}
			}
		}
	}
	ob["copies"] = copies
	return ob
}
