//go:build verif

package main

// iterscan: the inputs and the output of one client iteration, for the iterator model (coq/Model/Iter.v).
// For every partition and every listed primary / replica owner the complete sequence of DM.SCAN pages that
// owner answers (same COUNT / MATCH arguments as the iterator sends), then the key sequence the client
// iterator (cluster client or embedded client) hands out, in order.

import (
	"context"
	"encoding/hex"
	"fmt"
	"time"

	"github.com/olric-data/olric"
	"github.com/olric-data/olric/internal/protocol"
)

func (r *dRunner) ownerPages(ctx context.Context, op *dOp, part uint64, owner string, replica bool) ([][]string, error) {
	i := r.cl.indexOf(owner)
	if i < 0 {
		return nil, fmt.Errorf("owner %s is not a member", owner)
	}
	var pages [][]string
	cursor := uint64(0)
	for n := 0; n < 100000; n++ {
		s := protocol.NewScan(part, op.D, cursor)
		if op.Count > 0 {
			s.SetCount(op.Count)
		}
		if op.Match != "" {
			s.SetMatch(op.Match)
		}
		if replica {
			s.SetReplica()
		}
		cmd := s.Command(ctx)
		if err := r.cl.Raw(i).Process(ctx, cmd); err != nil {
			return nil, err
		}
		keys, next, err := cmd.Result()
		if err != nil {
			return nil, err
		}
		page := []string{}
		for _, k := range keys {
			page = append(page, hex.EncodeToString([]byte(k)))
		}
		pages = append(pages, page)
		cursor = next
		if cursor == 0 {
			return pages, nil
		}
	}
	return nil, fmt.Errorf("DM.SCAN on %s partition %d did not come back to cursor 0", owner, part)
}

func (r *dRunner) iterScan(op *dOp, ob map[string]interface{}) {
	ctx, cancel := context.WithTimeout(context.Background(), 60*time.Second)
	defer cancel()
	cc, err := r.cl.ClusterClient()
	if err != nil {
		ob["r"] = "harness:" + err.Error()
		return
	}
	rt, err := cc.RoutingTable(ctx)
	if err != nil {
		ob["r"] = olricErr(err)
		return
	}
	var routes []map[string]interface{}
	var pages []map[string]interface{}
	for p := uint64(0); p < uint64(len(rt)); p++ {
		route := rt[p]
		po, ro := []int{}, []int{}
		for _, o := range route.PrimaryOwners {
			po = append(po, r.cl.indexOf(o))
			pg, err := r.ownerPages(ctx, op, p, o, false)
			if err != nil {
				ob["r"] = "harness:" + err.Error()
				return
			}
			pages = append(pages, map[string]interface{}{"part": p, "rep": false, "o": r.cl.indexOf(o), "pages": pg})
		}
		for _, o := range route.ReplicaOwners {
			ro = append(ro, r.cl.indexOf(o))
			pg, err := r.ownerPages(ctx, op, p, o, true)
			if err != nil {
				ob["r"] = "harness:" + err.Error()
				return
			}
			pages = append(pages, map[string]interface{}{"part": p, "rep": true, "o": r.cl.indexOf(o), "pages": pg})
		}
		routes = append(routes, map[string]interface{}{"p": po, "r": ro})
	}
	ki := r.cl.KeyInfo(op.D, "x")
	dm, _, err := r.dmapFor(op.C, op.D, ki)
	if err != nil {
		ob["r"] = olricErr(err)
		return
	}
	var so []olric.ScanOption
	if op.Count > 0 {
		so = append(so, olric.Count(op.Count))
	}
	if op.Match != "" {
		so = append(so, olric.Match(op.Match))
	}
	t0 := time.Now()
	it, err := dm.Scan(ctx, so...)
	if err != nil {
		ob["r"] = olricErr(err)
		return
	}
	keys := []string{}
	done := make(chan struct{})
	go func() {
		defer close(done)
		for n := 0; it.Next() && n < 200000; n++ {
			keys = append(keys, hex.EncodeToString([]byte(it.Key())))
		}
	}()
	select {
	case <-done:
		ob["r"] = "ok"
	case <-time.After(20 * time.Second):
		it.Close()
		<-done
		ob["r"] = "timeout"
	}
	ob["ms"] = time.Since(t0).Milliseconds()
	it.Close()
	ob["routes"] = routes
	ob["pages"] = pages
	ob["keys"] = keys
}
