//go:build verif

package main

import (
	"sort"
	"bufio"
	"bytes"
	"context"
	"encoding/hex"
	"encoding/json"
	"errors"
	"fmt"
	"math"
	"os"
	"strconv"
	"strings"
	"time"

	"github.com/olric-data/olric"
	"github.com/olric-data/olric/internal/cluster/partitions"
	"github.com/olric-data/olric/internal/kvstore/entry"
	"github.com/olric-data/olric/internal/resp"
)

// values (C17): what is written is what is read back.
//   kind "codec"   : the resp encoder and Scan, in process (differential with coq/Model/Resp.v)
//   kind "cluster" : typed round trips Put -> Get -> accessor/Scan through every client path on a real
//                    in-process cluster, white-box reads of the copies, raw GETENTRY, a join that migrates.
// One JSON scenario per input line, one JSON result per output line. Nothing here is random.

// A value is (type name, textual representation):
//   int int8..int64 uint uint8..uint64 duration : decimal
//   bool                                        : "true" / "false"
//   string bytes binm                           : hex of the bytes
//   float32 float64                             : hex of the IEEE bits
//   time                                        : "unixsec,nsec,zone-offset-seconds"

// verifBin is a BinaryMarshaler whose wire form differs from its content.
type verifBin struct{ B []byte }

func (v verifBin) MarshalBinary() ([]byte, error) {
	out := make([]byte, 0, len(v.B)+1)
	out = append(out, 0xAB)
	for i := len(v.B) - 1; i >= 0; i-- {
		out = append(out, v.B[i])
	}
	return out, nil
}

func (v *verifBin) UnmarshalBinary(b []byte) error {
	if len(b) < 1 || b[0] != 0xAB {
		return errors.New("verifBin: bad magic")
	}
	v.B = make([]byte, 0, len(b)-1)
	for i := len(b) - 1; i >= 1; i-- {
		v.B = append(v.B, b[i])
	}
	return nil
}

func mkValue(t, r string) (interface{}, error) {
	pi := func(bits int) (int64, error) { return strconv.ParseInt(r, 10, bits) }
	pu := func(bits int) (uint64, error) { return strconv.ParseUint(r, 10, bits) }
	switch t {
	case "int":
		n, err := pi(64)
		return int(n), err
	case "int8":
		n, err := pi(8)
		return int8(n), err
	case "int16":
		n, err := pi(16)
		return int16(n), err
	case "int32":
		n, err := pi(32)
		return int32(n), err
	case "int64":
		n, err := pi(64)
		return n, err
	case "uint":
		n, err := pu(64)
		return uint(n), err
	case "uint8":
		n, err := pu(8)
		return uint8(n), err
	case "uint16":
		n, err := pu(16)
		return uint16(n), err
	case "uint32":
		n, err := pu(32)
		return uint32(n), err
	case "uint64":
		n, err := pu(64)
		return n, err
	case "duration":
		n, err := pi(64)
		return time.Duration(n), err
	case "bool":
		return r == "true", nil
	case "string":
		b, err := hex.DecodeString(r)
		return string(b), err
	case "bytes":
		b, err := hex.DecodeString(r)
		if b == nil {
			b = []byte{}
		}
		return b, err
	case "binm":
		b, err := hex.DecodeString(r)
		return verifBin{B: b}, err
	case "float32":
		n, err := strconv.ParseUint(r, 16, 32)
		return math.Float32frombits(uint32(n)), err
	case "float64":
		n, err := strconv.ParseUint(r, 16, 64)
		return math.Float64frombits(n), err
	case "time":
		p := strings.Split(r, ",")
		if len(p) != 3 {
			return nil, fmt.Errorf("bad time %q", r)
		}
		s, _ := strconv.ParseInt(p[0], 10, 64)
		ns, _ := strconv.ParseInt(p[1], 10, 64)
		off, _ := strconv.ParseInt(p[2], 10, 64)
		return time.Unix(s, ns).In(time.FixedZone("", int(off))), nil
	}
	return nil, fmt.Errorf("unknown type %q", t)
}

func reprTime(v time.Time) string {
	_, off := v.Zone()
	return fmt.Sprintf("%d,%d,%d", v.Unix(), v.Nanosecond(), off)
}

// scanInto makes a variable of type t, lets f fill it through a pointer, and prints it.
func scanInto(t string, f func(interface{}) error) (string, error) {
	switch t {
	case "int":
		var v int
		err := f(&v)
		return strconv.FormatInt(int64(v), 10), err
	case "int8":
		var v int8
		err := f(&v)
		return strconv.FormatInt(int64(v), 10), err
	case "int16":
		var v int16
		err := f(&v)
		return strconv.FormatInt(int64(v), 10), err
	case "int32":
		var v int32
		err := f(&v)
		return strconv.FormatInt(int64(v), 10), err
	case "int64":
		var v int64
		err := f(&v)
		return strconv.FormatInt(v, 10), err
	case "uint":
		var v uint
		err := f(&v)
		return strconv.FormatUint(uint64(v), 10), err
	case "uint8":
		var v uint8
		err := f(&v)
		return strconv.FormatUint(uint64(v), 10), err
	case "uint16":
		var v uint16
		err := f(&v)
		return strconv.FormatUint(uint64(v), 10), err
	case "uint32":
		var v uint32
		err := f(&v)
		return strconv.FormatUint(uint64(v), 10), err
	case "uint64":
		var v uint64
		err := f(&v)
		return strconv.FormatUint(v, 10), err
	case "duration":
		var v time.Duration
		err := f(&v)
		return strconv.FormatInt(int64(v), 10), err
	case "bool":
		var v bool
		err := f(&v)
		return strconv.FormatBool(v), err
	case "string":
		var v string
		err := f(&v)
		return hex.EncodeToString([]byte(v)), err
	case "bytes":
		var v []byte
		err := f(&v)
		return hex.EncodeToString(v), err
	case "binm":
		var v verifBin
		err := f(&v)
		return hex.EncodeToString(v.B), err
	case "float32":
		var v float32
		err := f(&v)
		return fmt.Sprintf("%08x", math.Float32bits(v)), err
	case "float64":
		var v float64
		err := f(&v)
		return fmt.Sprintf("%016x", math.Float64bits(v)), err
	case "time":
		var v time.Time
		err := f(&v)
		if err != nil {
			return "", err
		}
		return reprTime(v), nil
	}
	return "", fmt.Errorf("unknown type %q", t)
}

// accessor reads a GetResponse through its typed accessor (Int8(), String(), ...).
func accessor(t string, g *olric.GetResponse) (string, error) {
	switch t {
	case "int":
		v, err := g.Int()
		return strconv.FormatInt(int64(v), 10), err
	case "int8":
		v, err := g.Int8()
		return strconv.FormatInt(int64(v), 10), err
	case "int16":
		v, err := g.Int16()
		return strconv.FormatInt(int64(v), 10), err
	case "int32":
		v, err := g.Int32()
		return strconv.FormatInt(int64(v), 10), err
	case "int64":
		v, err := g.Int64()
		return strconv.FormatInt(v, 10), err
	case "uint":
		v, err := g.Uint()
		return strconv.FormatUint(uint64(v), 10), err
	case "uint8":
		v, err := g.Uint8()
		return strconv.FormatUint(uint64(v), 10), err
	case "uint16":
		v, err := g.Uint16()
		return strconv.FormatUint(uint64(v), 10), err
	case "uint32":
		v, err := g.Uint32()
		return strconv.FormatUint(uint64(v), 10), err
	case "uint64":
		v, err := g.Uint64()
		return strconv.FormatUint(v, 10), err
	case "duration":
		v, err := g.Duration()
		return strconv.FormatInt(int64(v), 10), err
	case "bool":
		v, err := g.Bool()
		return strconv.FormatBool(v), err
	case "string":
		v, err := g.String()
		return hex.EncodeToString([]byte(v)), err
	case "bytes":
		v, err := g.Byte()
		return hex.EncodeToString(v), err
	case "float32":
		v, err := g.Float32()
		return fmt.Sprintf("%08x", math.Float32bits(v)), err
	case "float64":
		v, err := g.Float64()
		return fmt.Sprintf("%016x", math.Float64bits(v)), err
	case "time":
		v, err := g.Time()
		if err != nil {
			return "", err
		}
		return reprTime(v), nil
	}
	return scanInto(t, g.Scan)
}

func cliCode(err error) string {
	switch {
	case err == nil:
		return "nil"
	case errors.Is(err, olric.ErrKeyTooLarge):
		return "keytoolarge"
	case errors.Is(err, olric.ErrEntryTooLarge):
		return "entrytoolarge"
	case errors.Is(err, olric.ErrKeyNotFound):
		return "notfound"
	case errors.Is(err, olric.ErrWriteQuorum):
		return "writequorum"
	case errors.Is(err, olric.ErrReadQuorum):
		return "readquorum"
	default:
		s := err.Error()
		if len(s) > 120 {
			s = s[:120]
		}
		return "other:" + s
	}
}

type valScenario struct {
	ID    int             `json:"id"`
	Kind  string          `json:"kind"`
	Items [][]string      `json:"items"`
	Opts  ClusterOpts     `json:"opts"`
	DMap  string          `json:"dmap"`
	Ops   [][]interface{} `json:"ops"`
}

type valResult struct {
	ID   int             `json:"id"`
	Obs  [][]interface{} `json:"obs"`
	Info map[string]interface{} `json:"info,omitempty"`
	Err  string          `json:"err,omitempty"`
}

func runCodec(sc *valScenario) valResult {
	res := valResult{ID: sc.ID}
	for _, it := range sc.Items {
		switch it[0] {
		case "enc":
			v, err := mkValue(it[1], it[2])
			if err != nil {
				res.Obs = append(res.Obs, []interface{}{"enc", "badinput:" + err.Error()})
				continue
			}
			buf := bytes.NewBuffer(nil)
			if err := resp.New(buf).Encode(v); err != nil {
				res.Obs = append(res.Obs, []interface{}{"enc", "err"})
				continue
			}
			b := append([]byte{}, buf.Bytes()...)
			back, err := scanInto(it[1], func(p interface{}) error { return resp.Scan(b, p) })
			if err != nil {
				res.Obs = append(res.Obs, []interface{}{"enc", hex.EncodeToString(b), false, ""})
			} else {
				res.Obs = append(res.Obs, []interface{}{"enc", hex.EncodeToString(b), true, back})
			}
		case "scan":
			b, _ := hex.DecodeString(it[2])
			back, err := scanInto(it[1], func(p interface{}) error { return resp.Scan(b, p) })
			if err != nil {
				res.Obs = append(res.Obs, []interface{}{"scan", "err"})
			} else {
				res.Obs = append(res.Obs, []interface{}{"scan", "ok", back})
			}
		default:
			res.Obs = append(res.Obs, []interface{}{"?"})
		}
	}
	return res
}

// paths: which client an operation goes through
type valCluster struct {
	cl   *Cluster
	name string
	ctx  context.Context
	emb  map[int]olric.DMap
	cdm  olric.DMap
}

func (vc *valCluster) embDM(i int) (olric.DMap, error) {
	if dm, ok := vc.emb[i]; ok {
		return dm, nil
	}
	dm, err := vc.cl.Members[i].Emb.NewDMap(vc.name)
	if err != nil {
		return nil, err
	}
	vc.emb[i] = dm
	return dm, nil
}

func (vc *valCluster) clusterDM() (olric.DMap, error) {
	if vc.cdm != nil {
		return vc.cdm, nil
	}
	cc, err := vc.cl.ClusterClient()
	if err != nil {
		return nil, err
	}
	dm, err := cc.NewDMap(vc.name)
	if err != nil {
		return nil, err
	}
	vc.cdm = dm
	return dm, nil
}

// pick returns the DMap handle for a path ("own", "non", "cc", "pipe" handled by the caller as cc).
func (vc *valCluster) pick(path, key string) (olric.DMap, error) {
	switch path {
	case "own", "non":
		ki := vc.cl.KeyInfo(vc.name, key)
		idx := ki.Owner
		if path == "non" {
			for i, m := range vc.cl.Members {
				if m.Alive && i != ki.Owner {
					idx = i
					break
				}
			}
		}
		return vc.embDM(idx)
	case "cc", "pipe":
		return vc.clusterDM()
	}
	if strings.HasPrefix(path, "m") {
		i, err := strconv.Atoi(path[1:])
		if err != nil || i >= len(vc.cl.Members) {
			return nil, fmt.Errorf("bad path %q", path)
		}
		return vc.embDM(i)
	}
	return nil, fmt.Errorf("bad path %q", path)
}

func (vc *valCluster) put(path, key string, v interface{}) error {
	dm, err := vc.pick(path, key)
	if err != nil {
		return err
	}
	if path != "pipe" {
		return dm.Put(vc.ctx, key, v)
	}
	p, err := dm.Pipeline()
	if err != nil {
		return err
	}
	defer p.Discard()
	f, err := p.Put(vc.ctx, key, v)
	if err != nil {
		return err
	}
	if err := p.Exec(vc.ctx); err != nil {
		return err
	}
	return f.Result()
}

func (vc *valCluster) get(path, key string) (*olric.GetResponse, error) {
	dm, err := vc.pick(path, key)
	if err != nil {
		return nil, err
	}
	if path != "pipe" {
		return dm.Get(vc.ctx, key)
	}
	p, err := dm.Pipeline()
	if err != nil {
		return nil, err
	}
	defer p.Discard()
	f := p.Get(vc.ctx, key)
	if err := p.Exec(vc.ctx); err != nil {
		return nil, err
	}
	return f.Result()
}

func hexKey(x interface{}) string {
	b, err := hex.DecodeString(x.(string))
	if err != nil {
		panic(err)
	}
	return string(b)
}

func (vc *valCluster) copies(key string) []interface{} {
	h := partitions.HKey(vc.name, key)
	var out []interface{}
	for i, m := range vc.cl.Members {
		if !m.Alive {
			continue
		}
		for _, kind := range []partitions.Kind{partitions.PRIMARY, partitions.BACKUP} {
			c := m.DB.VerifDMap().VerifCopy(kind, vc.name, h)
			if c.Found {
				k := "primary"
				if kind == partitions.BACKUP {
					k = "backup"
				}
				out = append(out, []interface{}{i, k, hex.EncodeToString([]byte(c.Key)), hex.EncodeToString(c.Value)})
			}
		}
	}
	return out
}

func runValCluster(sc *valScenario) (res valResult) {
	res = valResult{ID: sc.ID, Info: map[string]interface{}{}}
	cl, err := StartCluster(sc.Opts)
	if err != nil {
		res.Err = "cluster: " + err.Error()
		return
	}
	defer cl.Shutdown()
	name := sc.DMap
	if name == "" {
		name = "d"
	}
	vc := &valCluster{cl: cl, name: name, ctx: context.Background(), emb: map[int]olric.DMap{}}
	moved := 0
	for _, op := range sc.Ops {
		var ob []interface{}
		opn := op[0].(string)
		limit := 4 * time.Second
		if opn == "join" {
			limit = 40 * time.Second
		}
		hung, p := withWatchdog(limit, func() {
			switch opn {
			case "put":
				key := hexKey(op[2])
				v, err := mkValue(op[3].(string), op[4].(string))
				if err != nil {
					ob = []interface{}{"code", "badinput:" + err.Error()}
					return
				}
				ob = []interface{}{"code", cliCode(vc.put(op[1].(string), key, v))}
			case "sleep":
				time.Sleep(time.Duration(num(op[1])) * time.Millisecond)
				ob = []interface{}{"slept"}
			case "keys":
				// every key of the DMap as an iterator hands it out: ["keys", path]
				dm, err := vc.pick(op[1].(string), "")
				if err != nil {
					ob = []interface{}{"keys", cliCode(err)}
					return
				}
				it, err := dm.Scan(vc.ctx)
				if err != nil {
					ob = []interface{}{"keys", cliCode(err)}
					return
				}
				var ks []string
				for it.Next() {
					ks = append(ks, hex.EncodeToString([]byte(it.Key())))
				}
				it.Close()
				sort.Strings(ks)
				ob = []interface{}{"keys", "nil", ks}
			case "bput":
				// several writes queued in ONE pipeline before Exec: ["bput", [[keyhex, type, repr, "put"|"getput"], ...]]
				items := op[1].([]interface{})
				codes := make([]interface{}, len(items))
				dm, err := vc.clusterDM()
				if err != nil {
					ob = []interface{}{"batch", cliCode(err)}
					return
				}
				p, err := dm.Pipeline()
				if err != nil {
					ob = []interface{}{"batch", cliCode(err)}
					return
				}
				defer p.Discard()
				results := make([]func() error, len(items))
				for i, it := range items {
					x := it.([]interface{})
					key := hexKey(x[0])
					v, err := mkValue(x[1].(string), x[2].(string))
					if err != nil {
						codes[i] = "badinput:" + err.Error()
						continue
					}
					if x[3].(string) == "getput" {
						f, err := p.GetPut(vc.ctx, key, v)
						if err != nil {
							codes[i] = cliCode(err)
							continue
						}
						results[i] = func() error {
							_, err := f.Result()
							if errors.Is(err, olric.ErrNilResponse) {
								err = nil
							}
							return err
						}
					} else {
						f, err := p.Put(vc.ctx, key, v)
						if err != nil {
							codes[i] = cliCode(err)
							continue
						}
						results[i] = f.Result
					}
				}
				if err := p.Exec(vc.ctx); err != nil {
					ob = []interface{}{"batch", cliCode(err)}
					return
				}
				for i, r := range results {
					if r != nil {
						codes[i] = cliCode(r())
					}
				}
				ob = []interface{}{"batch", "nil", codes}
			case "get":
				key := hexKey(op[2])
				t := op[3].(string)
				g, err := vc.get(op[1].(string), key)
				if err != nil {
					ob = []interface{}{"val", cliCode(err)}
					return
				}
				a, err1 := accessor(t, g)
				s, err2 := scanInto(t, g.Scan)
				raw, _ := g.Byte()
				if err1 != nil || err2 != nil {
					ob = []interface{}{"val", "scanerr", fmt.Sprint(err1), fmt.Sprint(err2), hex.EncodeToString(raw)}
					return
				}
				ob = []interface{}{"val", "nil", a, s, hex.EncodeToString(raw)}
			case "del":
				key := hexKey(op[2])
				dm, err := vc.pick(op[1].(string), key)
				if err == nil {
					_, err = dm.Delete(vc.ctx, key)
				}
				ob = []interface{}{"code", cliCode(err)}
			case "copies":
				ki := cl.KeyInfo(name, hexKey(op[1]))
				ob = []interface{}{"copies", vc.copies(hexKey(op[1])), ki.Owner, ki.Backups}
			case "getentry":
				key := hexKey(op[1])
				ki := cl.KeyInfo(name, key)
				target := ki.Owner
				args := []interface{}{"DM.GETENTRY", name, key}
				if op[2].(string) == "rc" {
					if len(ki.Backups) == 0 {
						ob = []interface{}{"entry", "nobackup"}
						return
					}
					// while a backup fragment is handed over the list names the old and the new backup owner: ask the
					// one that holds the copy at this moment
					target = ki.Backups[0]
					for _, b := range ki.Backups {
						if b >= 0 && cl.Members[b].Alive && cl.Members[b].DB.VerifDMap().VerifCopy(partitions.BACKUP, name, ki.HKey).Found {
							target = b
							break
						}
					}
					args = append(args, "RC")
				}
				r, err := cl.Raw(target).Do(vc.ctx, args...).Result()
				if err != nil {
					c := "other:" + err.Error()
					if strings.Contains(err.Error(), "NOTFOUND") || strings.Contains(strings.ToLower(err.Error()), "not found") {
						c = "notfound"
					}
					ob = []interface{}{"entry", c}
					return
				}
				raw, ok := r.(string)
				if !ok {
					ob = []interface{}{"entry", fmt.Sprintf("other:reply %T", r)}
					return
				}
				e := entry.New()
				e.Decode([]byte(raw))
				ob = []interface{}{"entry", "nil", hex.EncodeToString([]byte(e.Key())), hex.EncodeToString(e.Value())}
			case "owner":
				ki := cl.KeyInfo(name, hexKey(op[1]))
				ob = []interface{}{"owner", ki.Owner, ki.Backups, ki.Part}
			case "join":
				before := map[uint64]string{}
				m0 := cl.Live()[0]
				for pid := uint64(0); pid < m0.Cfg.PartitionCount; pid++ {
					before[pid] = m0.DB.VerifPrimary().PartitionByID(pid).Owner().Name
				}
				if _, err := cl.AddMember(); err != nil {
					ob = []interface{}{"join", "err:" + err.Error()}
					return
				}
				if err := cl.WaitStable(20 * time.Second); err != nil {
					ob = []interface{}{"join", "err:" + err.Error()}
					return
				}
				n := 0
				for pid := uint64(0); pid < m0.Cfg.PartitionCount; pid++ {
					if before[pid] != m0.DB.VerifPrimary().PartitionByID(pid).Owner().Name {
						n++
					}
				}
				moved += n
				if cl.cc != nil {
					_ = cl.cc.RefreshMetadata(vc.ctx)
				}
				ob = []interface{}{"join", "ok", len(cl.Live()), n}
			default:
				ob = []interface{}{"?", opn}
			}
		})
		if hung {
			res.Obs = append(res.Obs, []interface{}{"hang"})
			res.Err = "hang"
			return
		}
		if p != nil {
			res.Obs = append(res.Obs, []interface{}{"panic", fmt.Sprint(p)})
			res.Err = "panic"
			return
		}
		res.Obs = append(res.Obs, ob)
	}
	res.Info["partitions_moved"] = moved
	res.Info["members"] = len(cl.Live())
	return
}

func init() {
	register("values", func(args []string, in *bufio.Reader, out *bufio.Writer) error {
		dec := json.NewDecoder(in)
		for dec.More() {
			var sc valScenario
			if err := dec.Decode(&sc); err != nil {
				return err
			}
			var res valResult
			switch sc.Kind {
			case "codec":
				res = runCodec(&sc)
			case "cluster":
				res = runValCluster(&sc)
			default:
				res = valResult{ID: sc.ID, Err: "unknown kind " + sc.Kind}
			}
			enc, _ := json.Marshal(res)
			out.Write(enc)
			out.WriteString("\n")
			out.Flush()
			if res.Err == "hang" {
				os.Exit(7)
			}
		}
		return nil
	})
}
