//go:build verif

package main

import (
	"bufio"
	"encoding/json"
	"fmt"
	"io"

	"github.com/olric-data/olric/internal/cluster/balancer"
	"github.com/olric-data/olric/internal/discovery"
)

// balancerplan: exact differential of the balancer's decisions (internal/cluster/balancer: primaryCopies, backupCopies).
// Input: one case per line
//   {"id":1,"this":2,"r":2,"prim":[{"owners":[0,2],"frags":[{"name":"a","len":3}]}, ...],"back":[...]}
// members are numbered; member i is named "m<i>" (the balancer compares members by name).  "owners":null leaves the
// owners list of the partition unset.
// Output: one line per case {"id":1,"moves":[{"kind":"Primary","part":0,"name":"a","owners":["m0"]}, ...]} or
// {"id":1,"panic":"..."}.

func init() { register("balancerplan", balancerPlanMain) }

type bpPart struct {
	Owners []int                `json:"owners"`
	Frags  []balancer.VerifFrag `json:"frags"`
}

type bpCase struct {
	ID   int      `json:"id"`
	This int      `json:"this"`
	R    int      `json:"r"`
	Prim []bpPart `json:"prim"`
	Back []bpPart `json:"back"`
}

func bpMember(i int) discovery.Member {
	m := discovery.Member{Name: fmt.Sprintf("m%d", i), Birthdate: int64(1000 + i)}
	m.NameHash = uint64(7000 + i)
	m.ID = uint64(9000 + i)
	return m
}

func bpParts(ps []bpPart) []balancer.VerifPart {
	out := make([]balancer.VerifPart, len(ps))
	for i, p := range ps {
		if p.Owners != nil {
			out[i].Owners = []discovery.Member{}
			for _, o := range p.Owners {
				out[i].Owners = append(out[i].Owners, bpMember(o))
			}
		}
		out[i].Frags = p.Frags
	}
	return out
}

func balancerPlanMain(args []string, in *bufio.Reader, out *bufio.Writer) error {
	for {
		line, err := in.ReadBytes('\n')
		if len(line) > 1 {
			var c bpCase
			if e := json.Unmarshal(line, &c); e != nil {
				return fmt.Errorf("balancerplan: %v", e)
			}
			res := map[string]interface{}{"id": c.ID}
			func() {
				defer func() {
					if r := recover(); r != nil {
						res["panic"] = fmt.Sprint(r)
					}
				}()
				mv := balancer.VerifPlan(bpMember(c.This), c.R, bpParts(c.Prim), bpParts(c.Back))
				if mv == nil {
					mv = []balancer.VerifMove{}
				}
				res["moves"] = mv
			}()
			b, _ := json.Marshal(res)
			out.Write(b)
			out.WriteByte('\n')
		}
		if err == io.EOF {
			break
		}
		if err != nil {
			return err
		}
	}
	return nil
}
