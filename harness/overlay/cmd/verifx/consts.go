//go:build verif

package main

import (
	"bufio"
	"fmt"
	"math/big"

	"github.com/olric-data/olric/internal/kvstore"
	"github.com/olric-data/olric/internal/kvstore/table"
)

// consts prints coq/Gen/Consts.v: the constants the Gallina model shares with the code, as compiled
// from /repo's working tree right now.
func init() {
	register("consts", func(args []string, in *bufio.Reader, out *bufio.Writer) error {
		fmt.Fprintln(out, "(* GENERATED on every check run by `verifx consts` from /repo's working tree. Do not edit. *)")
		fmt.Fprintln(out, "From Coq Require Import NArith ZArith.")
		fmt.Fprintln(out, "Local Open Scope N_scope.")
		fmt.Fprintf(out, "Definition max_key_length : N := %d.\n", table.MaxKeyLength)
		fmt.Fprintf(out, "Definition metadata_length : N := %d.\n", table.MetadataLength)
		// maxGarbageRatio as an exact rational num/den (float64 -> exact big.Rat, then nearest with den 100)
		r := new(big.Rat).SetFloat64(kvstore.VerifMaxGarbageRatio)
		num := new(big.Rat).Mul(r, big.NewRat(100, 1))
		f, _ := num.Float64()
		fmt.Fprintf(out, "Definition max_garbage_ratio_num : N := %d.\n", int64(f+0.5))
		fmt.Fprintf(out, "Definition max_garbage_ratio_den : N := 100.\n")
		fmt.Fprintf(out, "Definition default_table_size : N := %d.\n", kvstore.VerifDefaultTableSize)
		fmt.Fprintf(out, "Definition table_state_rw : N := %d.\n", table.ReadWriteState)
		fmt.Fprintf(out, "Definition table_state_ro : N := %d.\n", table.ReadOnlyState)
		fmt.Fprintf(out, "Definition table_state_recycled : N := %d.\n", table.RecycledState)
		for _, c := range extraConsts {
			c(out)
		}
		return nil
	})
}

var extraConsts []func(out *bufio.Writer)
