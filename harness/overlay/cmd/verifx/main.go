//go:build verif

// Command verifx is the correspondence harness of /verif. It is compiled INTO the olric module of
// /repo (go build -tags verif -overlay ...), from /repo's current working tree, and never lives there.
package main

import (
	"bufio"
	"fmt"
	"os"
	"sort"
)

type subcommand func(args []string, in *bufio.Reader, out *bufio.Writer) error

var registry = map[string]subcommand{}

func register(name string, f subcommand) { registry[name] = f }

func main() {
	if len(os.Args) < 2 {
		names := make([]string, 0, len(registry))
		for n := range registry {
			names = append(names, n)
		}
		sort.Strings(names)
		fmt.Fprintln(os.Stderr, "usage: verifx <subcommand> ...; subcommands:", names)
		os.Exit(2)
	}
	f, ok := registry[os.Args[1]]
	if !ok {
		fmt.Fprintln(os.Stderr, "unknown subcommand", os.Args[1])
		os.Exit(2)
	}
	in := bufio.NewReaderSize(os.Stdin, 1<<20)
	out := bufio.NewWriterSize(os.Stdout, 1<<20)
	err := f(os.Args[2:], in, out)
	out.Flush()
	if err != nil {
		fmt.Fprintln(os.Stderr, "verifx:", err)
		os.Exit(3)
	}
}
