//go:build verif

package main

import (
	"bufio"
	"context"
	"encoding/json"
	"fmt"
	"io"
	"strings"
	"time"

	"github.com/olric-data/olric/internal/cluster/partitions"
	"github.com/olric-data/olric/internal/discovery"
	"github.com/olric-data/olric/internal/dmap"
	"github.com/olric-data/olric/internal/kvstore/entry"
	"github.com/olric-data/olric/internal/kvstore/table"
	"github.com/olric-data/olric/internal/protocol"
	"github.com/vmihailenco/msgpack/v5"
)

// lww (C06): conflicting copies. One JSON scenario per input line, one result per output line; a scenario owns
// one 4-member cluster with ReplicaCount 3 (owner, one previous owner, two backup owners).
//
//	{"id":1,"rr":true,"rq":1,
//	 "gets":[{"copies":[2,0,3,3],"down":[],"expired":[]}],
//	 "merges":[{"frags":[[{"h":1,"ts":2},{"h":2,"ts":1}],[{"h":1,"ts":3}],[{"h":3,"ts":1,"big":true}]],"order":[0,1,2,1]}],
//	 "race":true}
//
// gets: copies[i] is the timestamp of holder i's copy (0 = no copy); holders are 0 = the owner's own primary
// fragment, 1 = the previous owner's primary fragment, 2,3 = the backup owners' backup fragments (in the order
// the code walks them). The value of holder i's copy is "<i>@<ts>", so the observed winner names its origin.
// down/expired list holder positions (holder 0 cannot be down).
// merges: fragments (tables with chosen hkeys / timestamps) delivered in "order" to the partition owner through
// the real INTERNAL.NODE.MOVEFRAGMENT handler; an entry's value is "<fragment>@<ts>"; "big" = a value larger
// than the receiver's table (its merge callback fails).

type lwwGet struct {
	Copies  []int64 `json:"copies"`
	Down    []int   `json:"down"`
	Expired []int   `json:"expired"`
}

type mergeEntry struct {
	HKey uint64 `json:"h"`
	TS   int64  `json:"ts"`
	Big  bool   `json:"big"`
	Exp  bool   `json:"exp"` // the entry carries a deadline that has passed
	Key  string `json:"-"`
	Val  string `json:"-"`
}

type lwwMerge struct {
	Frags [][]mergeEntry `json:"frags"`
	Order []int          `json:"order"`
}

// expires: a Put followed by an Expire (a write with its own, newer timestamp) and then a conflicting OLDER copy of
// the key: "merge" re-delivers the entry as it was before the Expire through MOVEFRAGMENT to the owner, "backup"
// puts it back on the first backup owner (DM.PUTENTRY) and reads the key.
type lwwExpire struct {
	Mode string `json:"mode"`
}

type lwwExpireObs struct {
	Old    copyObs `json:"old"`    // the owner's copy before the Expire
	Newest copyObs `json:"newest"` // the entry the Expire wrote, as the second backup owner holds it
	Reply  string  `json:"reply"`  // of the conflicting delivery
	Owner  copyObs `json:"owner"`  // the owner's copy afterwards
	Backup copyObs `json:"backup"` // the first backup owner's copy afterwards
	GetRes string  `json:"get"`
	GetTTL int64   `json:"get_ttl"`
	GetTS  int64   `json:"get_ts"`
}

type lwwScenario struct {
	ID      int         `json:"id"`
	RR      bool        `json:"rr"`
	RQ      int         `json:"rq"`
	Gets    []lwwGet    `json:"gets"`
	Merges  []lwwMerge  `json:"merges"`
	Expires []lwwExpire `json:"expires"`
	Race    bool        `json:"race"`
}

type lwwGetObs struct {
	Res   string    `json:"res"`
	Err   string    `json:"err,omitempty"`
	Val   string    `json:"val,omitempty"`
	TS    int64     `json:"ts,omitempty"`
	After []copyObs `json:"after"` // 8 slots: holder i primary fragment = 2i, backup fragment = 2i+1
}

type lwwItem struct {
	H   uint64 `json:"h"`
	Val string `json:"val"`
	TS  int64  `json:"ts"`
}

type lwwMergeObs struct {
	Replies []string  `json:"replies"` // ok | err:<word> per delivery
	Final   []lwwItem `json:"final"`
	Evicted int64     `json:"evicted"` // keys the background eviction removed anywhere in the process while the case ran
}

type lwwRaceObs struct {
	Done     bool   `json:"done"`
	Note     string `json:"note,omitempty"`
	DelRes   string `json:"del"`            // result of the Delete that ran while the read was in flight
	GetRes   string `json:"get"`            // result of that read
	GetVal   string `json:"getval,omitempty"`
	Primary  copyObs `json:"primary"`       // the owner's copy after both returned
	Get2Res  string `json:"get2"`           // a later read
	Get2Val  string `json:"get2val,omitempty"`
}

type lwwResult struct {
	ID     int           `json:"id"`
	Env    string        `json:"env,omitempty"`
	Gets   []lwwGetObs   `json:"gets,omitempty"`
	Merges []lwwMergeObs `json:"merges,omitempty"`
	Expires []lwwExpireObs `json:"expires,omitempty"`
	Race   *lwwRaceObs   `json:"race,omitempty"`
}

func init() {
	register("lww", func(args []string, in *bufio.Reader, out *bufio.Writer) error {
		dec := json.NewDecoder(in)
		enc := json.NewEncoder(out)
		for {
			var sc lwwScenario
			if err := dec.Decode(&sc); err == io.EOF {
				return nil
			} else if err != nil {
				return err
			}
			r := runLWW(&sc)
			r.ID = sc.ID
			if err := enc.Encode(r); err != nil {
				return err
			}
			out.Flush()
		}
	})
}

const lwwTable = 256

func buildTable(size uint64, es []mergeEntry) ([]byte, error) {
	t := table.New(size)
	for _, e := range es {
		en := entry.New()
		en.SetKey(e.Key)
		en.SetValue([]byte(e.Val))
		en.SetTimestamp(e.TS)
		if e.Exp {
			en.SetTTL(1)
		}
		if err := t.Put(e.HKey, en); err != nil {
			return nil, fmt.Errorf("building a fragment table: %w", err)
		}
	}
	return table.Encode(t)
}

func has(xs []int, x int) bool {
	for _, y := range xs {
		if y == x {
			return true
		}
	}
	return false
}

func runLWW(sc *lwwScenario) (res lwwResult) {
	rq := sc.RQ
	if rq < 1 {
		rq = 1
	}
	cl, err := startClusterCfg(ClusterOpts{Members: 4, Replicas: 3, WQ: 1, RQ: rq, Partitions: 7, TableSize: lwwTable,
		ReadRepair: sc.RR, PushMs: 3600000}, quietTweak)
	if err != nil {
		res.Env = err.Error()
		return
	}
	defer cl.Shutdown()
	cl.installGates()
	ctx := context.Background()
	const name = "w"

	for gi, g := range sc.Gets {
		key := fmt.Sprintf("g%d-%d", sc.ID, gi)
		ob, env := lwwOneGet(ctx, cl, name, key, g)
		if env != "" {
			res.Env = env
			return
		}
		res.Gets = append(res.Gets, ob)
	}

	for mi, mg := range sc.Merges {
		ob, env := lwwOneMerge(ctx, cl, fmt.Sprintf("m%d-%d", sc.ID, mi), mg)
		if env != "" {
			res.Env = env
			return
		}
		res.Merges = append(res.Merges, ob)
	}

	for xi, x := range sc.Expires {
		ob, env := lwwOneExpire(ctx, cl, fmt.Sprintf("x%d-%d", sc.ID, xi), x)
		if env != "" {
			res.Env = env
			return
		}
		res.Expires = append(res.Expires, ob)
	}

	if sc.Race {
		ob, env := lwwRace(ctx, cl)
		if env != "" {
			res.Env = env
			return
		}
		res.Race = &ob
	}
	return
}

// holders of a key in a stable 4-member R=3 cluster: owner, the one member that is neither owner nor backup
// (made a previous owner on the owner's own table, the state the coordinator leaves while a hand-over is
// pending), and the two backup owners.
func lwwHolders(cl *Cluster, name, key string) (kr keyRoles, holders []int, env string) {
	kr, err := cl.roles(name, key)
	if err != nil {
		return kr, nil, err.Error()
	}
	if len(kr.Backups) != 2 {
		return kr, nil, fmt.Sprintf("key %s has %d backup owners, want 2", key, len(kr.Backups))
	}
	prev := -1
	for i := range cl.Members {
		if i != kr.Owner && i != kr.Backups[0] && i != kr.Backups[1] {
			prev = i
		}
	}
	return kr, []int{kr.Owner, prev, kr.Backups[0], kr.Backups[1]}, ""
}

func lwwOneGet(ctx context.Context, cl *Cluster, name, key string, g lwwGet) (ob lwwGetObs, env string) {
	kr, holders, env := lwwHolders(cl, name, key)
	if env != "" {
		return ob, env
	}
	owner := cl.Members[kr.Owner]
	part := owner.DB.VerifPrimary().PartitionByID(kr.Part)
	stable := part.Owners()
	part.SetOwners([]discovery.Member{memberOf(cl, holders[1]), memberOf(cl, holders[0])})
	defer part.SetOwners(stable)

	for i, ts := range g.Copies {
		if ts == 0 || i >= 4 {
			continue
		}
		kind := partitions.PRIMARY
		if i >= 2 {
			kind = partitions.BACKUP
		}
		ttl := int64(0)
		if has(g.Expired, i) {
			ttl = 1
		}
		if err := cl.Members[holders[i]].DB.VerifDMap().VerifPutCopy(kind, name, key, []byte(fmt.Sprintf("%d@%d", i, ts)), ttl, ts); err != nil {
			return ob, "building a copy: " + err.Error()
		}
	}
	for _, d := range g.Down {
		if d >= 1 && d < 4 {
			_ = cl.setUnreachable(holders[d], true)
		}
	}
	dm, err := owner.Emb.NewDMap(name)
	if err != nil {
		return ob, "NewDMap: " + err.Error()
	}
	c, cancel := context.WithTimeout(ctx, 20*time.Second)
	gr, err := dm.Get(c, key)
	cancel()
	ob.Res = errEnum(err)
	if err != nil {
		ob.Err = err.Error()
	} else {
		b, _ := gr.Byte()
		ob.Val = string(b)
		ob.TS = gr.Timestamp()
	}
	for _, d := range g.Down {
		if d >= 1 && d < 4 {
			if err := cl.setUnreachable(holders[d], false); err != nil {
				return ob, err.Error()
			}
		}
	}
	for i := 0; i < 4; i++ {
		ob.After = append(ob.After, cl.copyOf(holders[i], partitions.PRIMARY, name, kr.HKey), cl.copyOf(holders[i], partitions.BACKUP, name, kr.HKey))
	}
	for i := 0; i < 4; i++ {
		cl.Members[holders[i]].DB.VerifDMap().VerifDelCopy(partitions.PRIMARY, name, key)
		cl.Members[holders[i]].DB.VerifDMap().VerifDelCopy(partitions.BACKUP, name, key)
	}
	return ob, ""
}

func lwwOneMerge(ctx context.Context, cl *Cluster, name string, mg lwwMerge) (ob lwwMergeObs, env string) {
	target := 0
	tm := cl.Members[target]
	var partID uint64
	found := false
	for p := uint64(0); p < tm.Cfg.PartitionCount; p++ {
		if tm.DB.VerifPrimary().PartitionByID(p).Owner().Name == tm.Addr {
			partID, found = p, true
			break
		}
	}
	if !found {
		return ob, "member 0 owns no partition"
	}
	payloads := make([][]byte, len(mg.Frags))
	for fi, fr := range mg.Frags {
		es := make([]mergeEntry, len(fr))
		for i, e := range fr {
			e.Key = fmt.Sprintf("key%d", e.HKey)
			e.Val = fmt.Sprintf("%d@%d", fi, e.TS)
			if e.Big {
				e.Val += strings.Repeat("B", 2*lwwTable)
			}
			es[i] = e
		}
		tbl, err := buildTable(8*lwwTable, es)
		if err != nil {
			return ob, err.Error()
		}
		p, err := msgpack.Marshal(&fragPack{PartID: partID, Kind: partitions.PRIMARY, Name: name, Payload: tbl})
		if err != nil {
			return ob, err.Error()
		}
		payloads[fi] = p
	}
	rc := cl.Raw(target)
	evicted0 := dmap.DeleteHits.Read() // every removal goes through deleteOnCluster; the case itself deletes nothing
	defer func() { ob.Evicted = dmap.DeleteHits.Read() - evicted0 }()
	for _, fi := range mg.Order {
		if fi < 0 || fi >= len(payloads) {
			continue
		}
		c, cancel := context.WithTimeout(ctx, 10*time.Second)
		err := rc.Process(c, protocol.NewMoveFragment(payloads[fi]).Command(c))
		cancel()
		if err == nil {
			ob.Replies = append(ob.Replies, "ok")
		} else if respEnum(err.Error()) == "neterr" {
			return ob, "MOVEFRAGMENT: " + err.Error()
		} else {
			ob.Replies = append(ob.Replies, "err:"+respEnum(err.Error()))
		}
	}
	for _, it := range tm.DB.VerifDMap().VerifFragmentDump(partitions.PRIMARY, name, partID) {
		v := string(it.Value)
		if len(v) > 32 {
			v = v[:strings.IndexByte(v, 'B')] + "+big"
		}
		ob.Final = append(ob.Final, lwwItem{H: it.HKey, Val: v, TS: it.TS})
	}
	return ob, ""
}

func lwwOneExpire(ctx context.Context, cl *Cluster, name string, x lwwExpire) (ob lwwExpireObs, env string) {
	// a key owned by member 0
	key := ""
	var ki KeyInfo
	for i := 0; i < 400 && key == ""; i++ {
		k := fmt.Sprintf("ek%d", i)
		if ki = cl.KeyInfo(name, k); ki.Owner == 0 && len(ki.Backups) >= 2 {
			key = k
		}
	}
	if key == "" {
		return ob, "no key owned by member 0"
	}
	owner := cl.Members[0]
	dm, err := owner.Emb.NewDMap(name)
	if err != nil {
		return ob, err.Error()
	}
	c, cancel := context.WithTimeout(ctx, 20*time.Second)
	defer cancel()
	if err := dm.Put(c, key, "v1"); err != nil {
		return ob, "Put: " + err.Error()
	}
	old := owner.DB.VerifDMap().VerifCopy(partitions.PRIMARY, name, ki.HKey)
	ob.Old = copyObs{Found: old.Found, Val: string(old.Value), TS: old.Timestamp, TTL: old.TTL}
	time.Sleep(2 * time.Millisecond)
	if err := dm.Expire(c, key, time.Hour); err != nil {
		return ob, "Expire: " + err.Error()
	}
	b1, b2 := ki.Backups[0], ki.Backups[1]
	nw := cl.Members[b2].DB.VerifDMap().VerifCopy(partitions.BACKUP, name, ki.HKey)
	ob.Newest = copyObs{Found: nw.Found, Val: string(nw.Value), TS: nw.Timestamp, TTL: nw.TTL}
	en := entry.New()
	en.SetKey(key)
	en.SetValue(old.Value)
	en.SetTimestamp(old.Timestamp)
	en.SetTTL(old.TTL)
	switch x.Mode {
	case "merge":
		t := table.New(8 * lwwTable)
		if err := t.Put(ki.HKey, en); err != nil {
			return ob, err.Error()
		}
		tbl, err := table.Encode(t)
		if err != nil {
			return ob, err.Error()
		}
		p, err := msgpack.Marshal(&fragPack{PartID: ki.Part, Kind: partitions.PRIMARY, Name: name, Payload: tbl})
		if err != nil {
			return ob, err.Error()
		}
		if err := cl.Raw(0).Process(c, protocol.NewMoveFragment(p).Command(c)); err != nil {
			ob.Reply = "err:" + respEnum(err.Error())
		} else {
			ob.Reply = "ok"
		}
	default:
		cmd := protocol.NewPutEntry(name, key, en.Encode()).Command(c)
		if err := cl.Raw(b1).Process(c, cmd); err != nil {
			ob.Reply = "err:" + respEnum(err.Error())
		} else {
			ob.Reply = "ok"
		}
	}
	g, err := dm.Get(c, key)
	if err != nil {
		ob.GetRes = olricErr(err)
	} else {
		ob.GetRes = "ok"
		ob.GetTTL = g.TTL()
		ob.GetTS = g.Timestamp()
	}
	oc := owner.DB.VerifDMap().VerifCopy(partitions.PRIMARY, name, ki.HKey)
	ob.Owner = copyObs{Found: oc.Found, Val: string(oc.Value), TS: oc.Timestamp, TTL: oc.TTL}
	bc := cl.Members[b1].DB.VerifDMap().VerifCopy(partitions.BACKUP, name, ki.HKey)
	ob.Backup = copyObs{Found: bc.Found, Val: string(bc.Value), TS: bc.Timestamp, TTL: bc.TTL}
	return ob, ""
}

// lwwRace builds ONE schedule deterministically (D24): a read that has already collected a stale local copy
// and the newest copy from the first backup is held at its last remote lookup while a Delete of the key runs
// to completion and is acknowledged; the read then finishes. With read-repair on, the read writes the winner
// back into the owner's fragment: the acknowledged Delete is undone.
func lwwRace(ctx context.Context, cl *Cluster) (ob lwwRaceObs, env string) {
	const name, key = "w", "race-key"
	kr, err := cl.roles(name, key)
	if err != nil {
		return ob, err.Error()
	}
	if len(kr.Backups) != 2 {
		return ob, "race: want 2 backup owners"
	}
	owner := cl.Members[kr.Owner]
	b0, b1 := cl.Members[kr.Backups[0]], cl.Members[kr.Backups[1]]
	if err := owner.DB.VerifDMap().VerifPutCopy(partitions.PRIMARY, name, key, []byte("old"), 0, 1); err != nil {
		return ob, err.Error()
	}
	if err := b0.DB.VerifDMap().VerifPutCopy(partitions.BACKUP, name, key, []byte("new"), 0, 2); err != nil {
		return ob, err.Error()
	}
	dm, err := owner.Emb.NewDMap(name)
	if err != nil {
		return ob, err.Error()
	}
	arrived, release := b1.DB.VerifServer().VerifHoldCommand(protocol.DMap.GetEntry)
	defer release()
	type gres struct {
		val string
		err error
	}
	gch := make(chan gres, 1)
	go func() {
		gr, err := dm.Get(ctx, key)
		if err != nil {
			gch <- gres{"", err}
			return
		}
		b, _ := gr.Byte()
		gch <- gres{string(b), nil}
	}()
	select {
	case <-arrived:
	case <-time.After(5 * time.Second):
		return ob, "race: the read never reached the second backup"
	}
	// the read now holds [local old@1, backup0 new@2] and waits for backup 1
	_, derr := dm.Delete(ctx, key)
	ob.DelRes = errEnum(derr)
	release()
	var g gres
	select {
	case g = <-gch:
	case <-time.After(5 * time.Second):
		return ob, "race: the read did not return"
	}
	ob.GetRes, ob.GetVal = errEnum(g.err), g.val
	ob.Primary = cl.copyOf(kr.Owner, partitions.PRIMARY, name, kr.HKey)
	gr2, err2 := dm.Get(ctx, key)
	ob.Get2Res = errEnum(err2)
	if err2 == nil {
		b, _ := gr2.Byte()
		ob.Get2Val = string(b)
	}
	ob.Done = true
	for _, m := range cl.Members {
		m.DB.VerifDMap().VerifDelCopy(partitions.PRIMARY, name, key)
		m.DB.VerifDMap().VerifDelCopy(partitions.BACKUP, name, key)
	}
	return ob, ""
}
