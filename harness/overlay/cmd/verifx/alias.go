//go:build verif

package main

import (
	"bytes"
	"bufio"
	"context"
	"encoding/hex"
	"encoding/json"
	"fmt"
	"os"
	"sort"
	"time"

	"github.com/olric-data/olric"
	"github.com/olric-data/olric/internal/cluster/partitions"
	"github.com/olric-data/olric/internal/dmap"
	"github.com/olric-data/olric/internal/kvstore"
	"github.com/olric-data/olric/internal/kvstore/entry"
	"github.com/olric-data/olric/pkg/storage"
)

// alias (C18): values handed back to callers are private snapshots, buffers passed to Put stay the caller's.
//   level "engine"  : the storage engine alone (kvstore Get / Range, then mutate / overwrite / recycle)
//   level "cluster" : DMap.Get / GetPut / Scan through embedded-owner, embedded-non-owner, cluster client and
//                     pipeline; Byte() and String(); compaction of every fragment; a join that migrates.
// A "handle" is whatever a read returned (a []byte or a string); the scenario later looks at it again
// (`read i`) or writes into it (`mut i pos b`, []byte handles only). A "buf" is a caller-owned []byte that is
// passed to Put and written afterwards.

type aliasScenario struct {
	ID    int             `json:"id"`
	Level string          `json:"level"`
	Size  uint64          `json:"size"`
	Opts  ClusterOpts     `json:"opts"`
	DMap  string          `json:"dmap"`
	Ops   [][]interface{} `json:"ops"`
}

type aliasResult struct {
	ID   int                    `json:"id"`
	Obs  [][]interface{}        `json:"obs"`
	Info map[string]interface{} `json:"info,omitempty"`
	Err  string                 `json:"err,omitempty"`
}

type handle struct {
	b     []byte
	s     string
	isStr bool
	g     *olric.GetResponse // the response object the value was taken from (cluster level): the caller may read it again
}

func (h *handle) hex() string {
	if h.isStr {
		return hex.EncodeToString([]byte(h.s))
	}
	return hex.EncodeToString(h.b)
}

type aliasState struct {
	handles []*handle
	bufs    [][]byte
}

// the operations that only concern the caller's own memory; returns nil when op is not one of them
func (st *aliasState) clientOp(op []interface{}) []interface{} {
	switch op[0].(string) {
	case "mut":
		i, pos, b := int(num(op[1])), int(num(op[2])), byte(num(op[3]))
		if i >= len(st.handles) {
			return []interface{}{"skip", "nohandle"}
		}
		h := st.handles[i]
		if h.isStr {
			return []interface{}{"skip", "string"}
		}
		if pos >= len(h.b) {
			return []interface{}{"skip", "short"}
		}
		h.b[pos] = b
		return []interface{}{"ok"}
	case "read":
		i := int(num(op[1]))
		if i >= len(st.handles) {
			return []interface{}{"skip", "nohandle"}
		}
		if h := st.handles[i]; h.g != nil {
			// the caller kept the response: what it yields now is what it yielded when it was handed back
			if h.isStr {
				if s2, err := h.g.String(); err != nil || s2 != h.s {
					return []interface{}{"read", hex.EncodeToString([]byte(s2)), "response"}
				}
			} else if b2, err := h.g.Byte(); err != nil || !bytes.Equal(b2, h.b) {
				return []interface{}{"read", hex.EncodeToString(b2), "response"}
			}
		}
		return []interface{}{"read", st.handles[i].hex()}
	case "buf":
		b := unhex(op[1])
		if b == nil {
			b = []byte{}
		}
		st.bufs = append(st.bufs, b)
		return []interface{}{"ok"}
	case "mutbuf":
		i, pos, b := int(num(op[1])), int(num(op[2])), byte(num(op[3]))
		if i >= len(st.bufs) || pos >= len(st.bufs[i]) {
			return []interface{}{"skip", "short"}
		}
		st.bufs[i][pos] = b
		return []interface{}{"ok"}
	case "readbuf":
		i := int(num(op[1]))
		if i >= len(st.bufs) {
			return []interface{}{"skip", "nobuf"}
		}
		return []interface{}{"read", hex.EncodeToString(st.bufs[i])}
	}
	return nil
}

func newAliasStore(size uint64) storage.Engine {
	c := storage.NewConfig(nil)
	c.Add("tableSize", size)
	c.Add("maxIdleTableTimeout", 24*time.Hour)
	k, err := kvstore.New(c)
	if err != nil {
		panic(err)
	}
	return k
}

func runAliasEngine(sc *aliasScenario) (res aliasResult) {
	res = aliasResult{ID: sc.ID}
	st := &aliasState{}
	s := newAliasStore(sc.Size)
	ts := int64(0)
	for _, op := range sc.Ops {
		var ob []interface{}
		name := op[0].(string)
		hung, p := withWatchdog(3*time.Second, func() {
			if ob = st.clientOp(op); ob != nil {
				return
			}
			switch name {
			case "put", "putbuf", "putraw":
				e := entry.New()
				e.SetKey(string(unhex(op[2])))
				if name == "put" {
					e.SetValue(unhex(op[3]))
				} else {
					i := int(num(op[3]))
					if i >= len(st.bufs) {
						ob = []interface{}{"skip", "nobuf"}
						return
					}
					// the caller's slice itself goes into the engine
					e.SetValue(st.bufs[i])
				}
				ts++
				e.SetTimestamp(ts)
				var err error
				if name == "putraw" {
					err = s.PutRaw(unum(op[1]), e.Encode())
				} else {
					err = s.Put(unum(op[1]), e)
				}
				ob = []interface{}{"code", errCode(err)}
			case "get":
				e, err := s.Get(unum(op[1]))
				if err != nil {
					ob = []interface{}{"val", errCode(err)}
					return
				}
				st.handles = append(st.handles, &handle{b: e.Value()})
				ob = []interface{}{"val", "nil", hex.EncodeToString(e.Value())}
			case "range":
				type hv struct {
					h uint64
					v []byte
				}
				var l []hv
				s.Range(func(hk uint64, e storage.Entry) bool {
					l = append(l, hv{hk, e.Value()})
					return true
				})
				sort.Slice(l, func(i, j int) bool { return l[i].h < l[j].h })
				var items []interface{}
				for _, x := range l {
					st.handles = append(st.handles, &handle{b: x.v})
					items = append(items, []interface{}{fmt.Sprint(x.h), hex.EncodeToString(x.v)})
				}
				ob = []interface{}{"range", items}
			case "del":
				ob = []interface{}{"code", errCode(s.Delete(unum(op[1])))}
			case "compact":
				_, err := s.Compaction()
				ob = []interface{}{"code", errCode(err)}
			case "compactall":
				n := 0
				for n < 400 {
					done, err := s.Compaction()
					n++
					if err != nil || done {
						break
					}
				}
				ob = []interface{}{"steps", n}
			case "xfer":
				// the partition moves: every table is exported, imported with Put on the new owner, dropped
				dst := newAliasStore(sc.Size)
				ti := s.TransferIterator()
				n := 0
				for ti.Next() && n < 1000 {
					data, idx, err := ti.Export()
					if err != nil {
						break
					}
					if err := dst.Import(data, func(hk uint64, e storage.Entry) error { return dst.Put(hk, e) }); err != nil {
						ob = []interface{}{"code", "other:" + err.Error()}
						return
					}
					if err := ti.Drop(idx); err != nil {
						break
					}
					n++
				}
				// what is left of the source are recycled tables: rewrite them so that stale slabs change
				s = dst
				ob = []interface{}{"code", "nil"}
			case "stats":
				x := s.Stats()
				ob = []interface{}{"stats", x.Length, x.NumTables, x.Inuse, x.Garbage}
			default:
				ob = []interface{}{"?", name}
			}
		})
		if hung {
			res.Obs = append(res.Obs, []interface{}{"hang"})
			res.Err = "hang"
			return
		}
		if p != nil {
			res.Obs = append(res.Obs, []interface{}{"panic", fmt.Sprint(p)})
			res.Err = "panic"
			return
		}
		res.Obs = append(res.Obs, ob)
	}
	return
}

func runAliasCluster(sc *aliasScenario) (res aliasResult) {
	res = aliasResult{ID: sc.ID, Info: map[string]interface{}{}}
	cl, err := StartCluster(sc.Opts)
	if err != nil {
		res.Err = "cluster: " + err.Error()
		return
	}
	defer cl.Shutdown()
	name := sc.DMap
	if name == "" {
		name = "d"
	}
	vc := &valCluster{cl: cl, name: name, ctx: context.Background(), emb: map[int]olric.DMap{}}
	st := &aliasState{}
	moved := 0
	compactions := 0
	addHandle := func(g *olric.GetResponse, how string) []interface{} {
		if _, err := g.Byte(); err == olric.ErrNilResponse {
			// EmbeddedDMap.GetPut wraps a nil entry instead of returning a nil response (a C15 matter)
			return []interface{}{"val", "none"}
		}
		if how == "string" {
			s, err := g.String()
			if err != nil {
				return []interface{}{"val", "scanerr"}
			}
			st.handles = append(st.handles, &handle{s: s, isStr: true, g: g})
			return []interface{}{"val", "nil", hex.EncodeToString([]byte(s))}
		}
		b, err := g.Byte()
		if err != nil {
			return []interface{}{"val", "scanerr"}
		}
		st.handles = append(st.handles, &handle{b: b, g: g})
		return []interface{}{"val", "nil", hex.EncodeToString(b)}
	}
	for _, op := range sc.Ops {
		var ob []interface{}
		opn := op[0].(string)
		hung, p := withWatchdog(25*time.Second, func() {
			if ob = st.clientOp(op); ob != nil {
				return
			}
			switch opn {
			case "put":
				ob = []interface{}{"code", cliCode(vc.put(op[1].(string), hexKey(op[2]), unhex(op[3])))}
			case "putbuf":
				i := int(num(op[3]))
				if i >= len(st.bufs) {
					ob = []interface{}{"skip", "nobuf"}
					return
				}
				ob = []interface{}{"code", cliCode(vc.put(op[1].(string), hexKey(op[2]), st.bufs[i]))}
			case "putbufdefer":
				// a pipelined Put of a caller's buffer; the caller reuses the buffer between Put and Exec
				i, pos, b := int(num(op[3])), int(num(op[4])), byte(num(op[5]))
				if i >= len(st.bufs) {
					ob = []interface{}{"skip", "nobuf"}
					return
				}
				key := hexKey(op[2])
				dm, err := vc.pick(op[1].(string), key)
				if err != nil {
					ob = []interface{}{"code", cliCode(err)}
					return
				}
				p, err := dm.Pipeline()
				if err != nil {
					ob = []interface{}{"code", cliCode(err)}
					return
				}
				f, err := p.Put(vc.ctx, key, st.bufs[i])
				if err == nil {
					if pos < len(st.bufs[i]) {
						st.bufs[i][pos] = b
					}
					if err = p.Exec(vc.ctx); err == nil {
						err = f.Result()
					}
				}
				_ = p.Discard() // returns the command slices to the shared pool (and closes the pipeline)
				ob = []interface{}{"code", cliCode(err)}
			case "get":
				if op[1].(string) == "bak" {
					// the backup copy itself (white box): with asynchronous replication it is written by a goroutine that
					// outlives the Put call, so wait until it carries the primary copy's timestamp
					key := hexKey(op[2])
					ki := cl.KeyInfo(name, key)
					if len(ki.Backups) > 0 {
						var bc dmap.VerifCopy
						deadline := time.Now().Add(5 * time.Second)
						for {
							pc := cl.Members[ki.Owner].DB.VerifDMap().VerifCopy(partitions.PRIMARY, name, ki.HKey)
							found := false
							for _, b := range ki.Backups {
								if b >= 0 && cl.Members[b].Alive {
									c := cl.Members[b].DB.VerifDMap().VerifCopy(partitions.BACKUP, name, ki.HKey)
									if c.Found || !found {
										bc, found = c, true
									}
									if c.Found {
										break
									}
								}
							}
							if bc.Found == pc.Found && (!pc.Found || bc.Timestamp == pc.Timestamp) {
								break
							}
							if time.Now().After(deadline) {
								// the backup write has not arrived (busy machine): not an observation
								ob = []interface{}{"skip", "notsettled"}
								return
							}
							time.Sleep(5 * time.Millisecond)
						}
						if !bc.Found {
							ob = []interface{}{"val", "notfound"}
							return
						}
						st.handles = append(st.handles, &handle{b: bc.Value})
						ob = []interface{}{"val", "nil", hex.EncodeToString(bc.Value)}
						return
					}
					op[1] = "cc"
				}
				g, err := vc.get(op[1].(string), hexKey(op[2]))
				if err != nil {
					ob = []interface{}{"val", cliCode(err)}
					return
				}
				ob = addHandle(g, op[3].(string))
			case "rrscribble":
				// ReadRepair: the owner holds the value, the backup owners a lagging (older) copy. An embedded Get on the owner
				// returns the value and repairs the backups; the caller overwrites the bytes it was handed straight away.
				// Reported: the backup copies after the repair and what the next reads return.
				key := hexKey(op[1])
				val := unhex(op[2])
				if err := vc.put("own", key, val); err != nil {
					ob = []interface{}{"rr", "put:" + cliCode(err)}
					return
				}
				ki := cl.KeyInfo(name, key)
				pc := cl.Members[ki.Owner].DB.VerifDMap().VerifCopy(partitions.PRIMARY, name, ki.HKey)
				if !pc.Found || len(ki.Backups) == 0 {
					ob = []interface{}{"rr", "skip"}
					return
				}
				for _, b := range ki.Backups {
					if b >= 0 && cl.Members[b].Alive {
						_ = cl.Members[b].DB.VerifDMap().VerifPutCopy(partitions.BACKUP, name, key, []byte("lagging-copy"), 0, pc.Timestamp-1000000)
					}
				}
				g, err := vc.get("own", key)
				if err != nil {
					ob = []interface{}{"rr", "get:" + cliCode(err)}
					return
				}
				got, _ := g.Byte()
				first := hex.EncodeToString(got)
				for i := range got {
					got[i] = 'X'
				}
				// wait until the backup copies carry the winner's timestamp (the repair may run in the background)
				var baks []interface{}
				deadline := time.Now().Add(3 * time.Second)
				for {
					baks = baks[:0]
					settled := true
					for _, b := range ki.Backups {
						if b >= 0 && cl.Members[b].Alive {
							c := cl.Members[b].DB.VerifDMap().VerifCopy(partitions.BACKUP, name, ki.HKey)
							if !c.Found || c.Timestamp != pc.Timestamp {
								settled = false
							}
							baks = append(baks, hex.EncodeToString(c.Value))
						}
					}
					if settled || time.Now().After(deadline) {
						if !settled {
							baks = append(baks, "notrepaired")
						}
						break
					}
					time.Sleep(5 * time.Millisecond)
				}
				var later []interface{}
				for _, path := range []string{"own", "cc", "non"} {
					g2, err := vc.get(path, key)
					if err != nil {
						later = append(later, "err:"+cliCode(err))
						continue
					}
					b2, _ := g2.Byte()
					later = append(later, hex.EncodeToString(b2))
				}
				ob = []interface{}{"rr", "ok", first, baks, later}
			case "getput":
				key := hexKey(op[2])
				dm, err := vc.pick(op[1].(string), key)
				if err != nil {
					ob = []interface{}{"val", cliCode(err)}
					return
				}
				g, err := dm.GetPut(vc.ctx, key, unhex(op[3]))
				if err != nil {
					ob = []interface{}{"val", cliCode(err)}
					return
				}
				if g == nil {
					ob = []interface{}{"val", "none"}
					return
				}
				ob = addHandle(g, op[4].(string))
			case "del":
				key := hexKey(op[2])
				dm, err := vc.pick(op[1].(string), key)
				if err == nil {
					_, err = dm.Delete(vc.ctx, key)
				}
				ob = []interface{}{"code", cliCode(err)}
			case "scan":
				dm, err := vc.pick(op[1].(string), "")
				if err != nil {
					ob = []interface{}{"keys", cliCode(err)}
					return
				}
				it, err := dm.Scan(vc.ctx)
				if err != nil {
					ob = []interface{}{"keys", cliCode(err)}
					return
				}
				var keys []string
				for it.Next() {
					keys = append(keys, it.Key())
				}
				it.Close()
				sort.Strings(keys)
				var hs []interface{}
				for _, k := range keys {
					st.handles = append(st.handles, &handle{s: k, isStr: true})
					hs = append(hs, hex.EncodeToString([]byte(k)))
				}
				ob = []interface{}{"keys", "nil", hs}
			case "compact":
				n := 0
				for _, m := range cl.Live() {
					for pid := uint64(0); pid < m.Cfg.PartitionCount; pid++ {
						n += m.DB.VerifDMap().VerifCompactFragment(partitions.PRIMARY, name, pid)
						n += m.DB.VerifDMap().VerifCompactFragment(partitions.BACKUP, name, pid)
					}
				}
				compactions += n
				ob = []interface{}{"code", "nil"}
			case "join":
				before := map[uint64]string{}
				m0 := cl.Live()[0]
				for pid := uint64(0); pid < m0.Cfg.PartitionCount; pid++ {
					before[pid] = m0.DB.VerifPrimary().PartitionByID(pid).Owner().Name
				}
				if _, err := cl.AddMember(); err != nil {
					ob = []interface{}{"join", "err:" + err.Error()}
					return
				}
				if err := cl.WaitStable(20 * time.Second); err != nil {
					ob = []interface{}{"join", "err:" + err.Error()}
					return
				}
				n := 0
				for pid := uint64(0); pid < m0.Cfg.PartitionCount; pid++ {
					if before[pid] != m0.DB.VerifPrimary().PartitionByID(pid).Owner().Name {
						n++
					}
				}
				moved += n
				if cl.cc != nil {
					_ = cl.cc.RefreshMetadata(vc.ctx)
				}
				ob = []interface{}{"join", "ok", len(cl.Live()), n}
			default:
				ob = []interface{}{"?", opn}
			}
		})
		if hung {
			res.Obs = append(res.Obs, []interface{}{"hang"})
			res.Err = "hang"
			return
		}
		if p != nil {
			res.Obs = append(res.Obs, []interface{}{"panic", fmt.Sprint(p)})
			res.Err = "panic"
			return
		}
		res.Obs = append(res.Obs, ob)
	}
	// how much storage was recycled under the handles (evidence only)
	tabs := 0
	for _, m := range cl.Live() {
		for pid := uint64(0); pid < m.Cfg.PartitionCount; pid++ {
			if ok, s := m.DB.VerifDMap().VerifFragmentStats(partitions.PRIMARY, name, pid); ok {
				tabs += s.NumTables
			}
		}
	}
	res.Info["partitions_moved"] = moved
	res.Info["compaction_calls"] = compactions
	res.Info["primary_tables"] = tabs
	return
}

func init() {
	register("alias", func(args []string, in *bufio.Reader, out *bufio.Writer) error {
		dec := json.NewDecoder(in)
		dec.UseNumber()
		for dec.More() {
			var sc aliasScenario
			if err := dec.Decode(&sc); err != nil {
				return err
			}
			var res aliasResult
			switch sc.Level {
			case "engine":
				res = runAliasEngine(&sc)
			case "cluster":
				res = runAliasCluster(&sc)
			default:
				res = aliasResult{ID: sc.ID, Err: "unknown level " + sc.Level}
			}
			enc, _ := json.Marshal(res)
			out.Write(enc)
			out.WriteString("\n")
			out.Flush()
			if res.Err == "hang" {
				os.Exit(7)
			}
		}
		return nil
	})
}
