//go:build verif

package olric

import (
	"github.com/olric-data/olric/internal/cluster/balancer"
	"github.com/olric-data/olric/internal/cluster/partitions"
	"github.com/olric-data/olric/internal/cluster/routingtable"
	"github.com/olric-data/olric/internal/dmap"
	"github.com/olric-data/olric/internal/pubsub"
	"github.com/olric-data/olric/internal/server"
)

// Verif-only accessors (add-only overlay file; never part of /repo).

func (db *Olric) VerifRT() *routingtable.RoutingTable   { return db.rt }
func (db *Olric) VerifBalancer() *balancer.Balancer     { return db.balancer }
func (db *Olric) VerifDMap() *dmap.Service              { return db.dmap }
func (db *Olric) VerifPubSub() *pubsub.Service          { return db.pubsub }
func (db *Olric) VerifPrimary() *partitions.Partitions  { return db.primary }
func (db *Olric) VerifBackup() *partitions.Partitions   { return db.backup }
func (db *Olric) VerifServer() *server.Server           { return db.server }
func (db *Olric) VerifName() string                     { return db.name }
