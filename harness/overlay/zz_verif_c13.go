//go:build verif

package olric

import (
	"github.com/olric-data/olric/internal/cluster/partitions"
)

// VerifSmartPick runs the REAL smartPick / clientByPartID of the cluster client and reports what they chose:
// the client's partition count, the partition id smartPick computes (hkey % partitionCount, the expression of
// smartPick), the address smartPick routes to and the address clientByPartID routes to for that partition.
func (cl *ClusterClient) VerifSmartPick(dmap, key string) (pcount uint64, partID uint64, addr string, addrByPart string, err error) {
	pcount = cl.partitionCount
	rc, err := cl.smartPick(dmap, key)
	if err != nil {
		return
	}
	addr = rc.Options().Addr
	hkey := partitions.HKey(dmap, key)
	if pcount != 0 {
		partID = hkey % pcount
	}
	rc2, err := cl.clientByPartID(partID)
	if err != nil {
		return
	}
	addrByPart = rc2.Options().Addr
	return
}
