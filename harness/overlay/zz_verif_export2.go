//go:build verif

package olric

import "github.com/olric-data/olric/internal/server"

// Verif-only accessor for C05 (add-only overlay file): the member's pool of RESP clients to its peers.
func (db *Olric) VerifClient() *server.Client { return db.client }
